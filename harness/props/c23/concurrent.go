package c23

import (
	"bytes"
	"fmt"
	"reflect"
	"runtime"
	"sync"

	"github.com/icon-project/goloop/common"
	"github.com/icon-project/goloop/common/codec"

	"verif/lib/gen"
)

// Concurrent phase: codec.BC / codec.RLP / codec.MP are process-wide
// singletons with pooled encoders and decoders, so "encode(v) is
// deterministic and decodes back to v" has to hold while other goroutines
// use the same codec object. K goroutines marshal and unmarshal their OWN
// values (nothing is shared but the codec); every result is compared with
// the bytes computed single-threaded beforehand. Fixed iteration counts; one
// pass with the scheduler pinned to one P (time slicing on the same P-local
// pool slot), one with the child's own GOMAXPROCS.

const (
	concWorkers    = 4
	concLargeIters = 120
	concSmallIters = 600
)

type bigMsg struct {
	Height  int64
	Sender  string
	Payload []byte
	Tail    uint32
}

type mpMsg struct {
	A int64
	S string
	B []byte
	L []string
}

type concJob struct {
	api   string // BC | RLP | MP | Any
	tname string
	v     reflect.Value // addressable value (BC/RLP/MP)
	tree  interface{}   // Any
	want  []byte
	large bool
}

func (j *concJob) encode() ([]byte, error) {
	switch j.api {
	case "BC":
		return codec.BC.MarshalToBytes(j.v.Addr().Interface())
	case "RLP":
		return codec.RLP.MarshalToBytes(j.v.Addr().Interface())
	case "MP":
		return codec.MP.MarshalToBytes(j.v.Addr().Interface())
	default:
		return common.MarshalAny(codec.BC, j.tree)
	}
}

// decodeBack decodes bs with the job's codec and compares with the job's value.
func (j *concJob) decodeBack(bs []byte) string {
	switch j.api {
	case "Any":
		back, err := common.UnmarshalAny(codec.BC, bs)
		if err != nil {
			return "decode error: " + err.Error()
		}
		if !eqAny(j.tree, back) {
			return "decoded tree differs"
		}
		return ""
	default:
		cd := codec.Codec(codec.BC)
		if j.api == "MP" {
			cd = codec.MP
		} else if j.api == "RLP" {
			cd = codec.RLP
		}
		out := reflect.New(j.v.Type())
		if _, err := cd.UnmarshalFromBytes(bs, out.Interface()); err != nil {
			return "decode error: " + err.Error()
		}
		return diff(j.v, out.Elem(), j.tname)
	}
}

func firstDiff(a, b []byte) int {
	n := len(a)
	if len(b) < n {
		n = len(b)
	}
	for i := 0; i < n; i++ {
		if a[i] != b[i] {
			return i
		}
	}
	return n
}

func (k *chk) concurrent() {
	c, r := k.c, k.r
	// ---- build the jobs single-threaded ----
	jobs := make([][]*concJob, concWorkers)
	var all []*concJob
	for w := 0; w < concWorkers; w++ {
		add := func(j *concJob) bool {
			bs, err := j.encode()
			if err != nil {
				return false
			}
			j.want = bs
			jobs[w] = append(jobs[w], j)
			all = append(all, j)
			return true
		}
		// large payloads (64..512 KiB), recognisable per worker
		for _, api := range []string{"BC", "MP"} {
			n := (64 + r.Intn(449)) * 1024
			if r.Intn(3) == 0 {
				n = 256 * 1024
			}
			m := bigMsg{Height: int64(1000 + w), Sender: fmt.Sprintf("worker-%d-%s", w, api), Payload: bytes.Repeat([]byte{byte('A' + w + 8*len(api))}, n), Tail: r.Uint32()}
			v := reflect.New(typeOf[bigMsg]()).Elem()
			v.Set(reflect.ValueOf(m))
			if !add(&concJob{api: api, tname: "bigMsg", v: v, large: true}) {
				add(&concJob{api: "BC", tname: "bigMsg", v: v, large: true})
			}
		}
		// ordinary values from the generator
		for len(jobs[w]) < 2+8 {
			ft := pickType(r)
			v := genValue(r, ft.t, 0)
			api := "BC"
			if r.Intn(3) == 0 {
				api = "RLP"
			}
			add(&concJob{api: api, tname: ft.name, v: v})
		}
		mm := reflect.New(typeOf[mpMsg]()).Elem()
		mm.Set(reflect.ValueOf(mpMsg{A: r.Int63(), S: string(gen.Bytes(r, r.Intn(300))), B: gen.Bytes(r, 1+r.Intn(3000)), L: []string{"x", fmt.Sprint(w)}}))
		add(&concJob{api: "MP", tname: "mpMsg", v: mm})
		for n := 0; n < 2; n++ {
			add(&concJob{api: "Any", tname: "any", tree: genAny(r, 0)})
		}
	}
	// the single-threaded bytes are themselves stable and decode back
	for _, j := range all {
		again, err := j.encode()
		if err != nil || !bytes.Equal(again, j.want) {
			c.Violation("encode.not-deterministic", map[string]interface{}{"type": j.tname, "api": j.api, "first": hx(j.want), "second": hx(again)})
			return
		}
		if d := j.decodeBack(j.want); d != "" {
			c.Violation("roundtrip.value-differs", map[string]interface{}{"type": j.tname, "api": j.api, "difference": d, "encoding": hx(j.want)})
			return
		}
	}
	c.Note("concurrent phase workers=%d jobs/worker=%d", concWorkers, len(jobs[0]))

	type finding struct {
		key string
		wit map[string]interface{}
	}
	for _, procs := range []int{1, 0} {
		prev := 0
		if procs > 0 {
			prev = runtime.GOMAXPROCS(procs)
			c.Count("concurrent_phases_one_p", 1)
		} else {
			c.Count("concurrent_phases_default_p", 1)
		}
		var wg sync.WaitGroup
		var mu sync.Mutex
		var found []finding
		var nMarshal, nLarge, nUnmarshal, nAny, nMP int
		stop := false
		for w := 0; w < concWorkers; w++ {
			wg.Add(1)
			go func(w int) {
				defer wg.Done()
				my := jobs[w]
				var lm, ll, lu, la, lp int
				report := func(f finding) {
					mu.Lock()
					found = append(found, f)
					stop = true
					mu.Unlock()
				}
				stopped := func() bool { mu.Lock(); defer mu.Unlock(); return stop }
				defer func() {
					if p := recover(); p != nil {
						report(finding{"concurrent.panic." + panicKey(p), map[string]interface{}{"worker": w, "procs": procs, "panic": fmt.Sprint(p)}})
					}
					mu.Lock()
					nMarshal += lm
					nLarge += ll
					nUnmarshal += lu
					nAny += la
					nMP += lp
					mu.Unlock()
				}()
				step := func(it int, j *concJob) bool {
					bs, err := j.encode()
					lm++
					switch {
					case j.large:
						ll++
					}
					if j.api == "Any" {
						la++
					} else if j.api == "MP" {
						lp++
					}
					if err != nil || !bytes.Equal(bs, j.want) {
						other := -1
						for oi, o := range all {
							if o != j && bytes.Equal(bs, o.want) {
								other = oi
							}
						}
						fd := firstDiff(bs, j.want)
						wit := map[string]interface{}{"worker": w, "iteration": it, "gomaxprocs": procs, "api": j.api, "type": j.tname, "err": fmt.Sprint(err),
							"len_got": len(bs), "len_want": len(j.want), "first_diff_offset": fd, "equals_encoding_of_another_goroutines_value": other >= 0,
							"decoding_the_returned_bytes": j.decodeBack(bs), "want_head": hx(j.want[:minI(len(j.want), 64)]), "got_head": hx(bs[:minI(len(bs), 64)])}
						report(finding{"concurrent.encode-differs-from-single-threaded." + j.api, wit})
						return false
					}
					// concurrent use of the pooled decoders on distinct inputs
					if it%4 == 0 || !j.large {
						lu++
						if d := j.decodeBack(j.want); d != "" {
							report(finding{"concurrent.decode-differs." + j.api, map[string]interface{}{"worker": w, "iteration": it, "gomaxprocs": procs, "type": j.tname, "difference": d}})
							return false
						}
					}
					return true
				}
				for it := 0; it < concLargeIters; it++ {
					if it%32 == 0 && stopped() {
						return
					}
					if !step(it, my[it%2]) {
						return
					}
				}
				for it := 0; it < concSmallIters; it++ {
					if it%64 == 0 && stopped() {
						return
					}
					if !step(it, my[2+it%(len(my)-2)]) {
						return
					}
				}
			}(w)
		}
		wg.Wait()
		if procs > 0 {
			runtime.GOMAXPROCS(prev)
		}
		c.Count("concurrent_marshals", nMarshal)
		c.Count("concurrent_large_payload_marshals", nLarge)
		c.Count("concurrent_unmarshals", nUnmarshal)
		c.Count("concurrent_marshalany", nAny)
		c.Count("concurrent_mp_marshals", nMP)
		c.Eval(nMarshal)
		for _, f := range found {
			c.Violation(f.key, f.wit)
		}
		if len(found) > 0 {
			return
		}
	}
}

func minI(a, b int) int {
	if a < b {
		return a
	}
	return b
}
