package c23

import (
	"fmt"
	"math/big"
	"math/rand"
	"reflect"
	"sort"

	"github.com/icon-project/goloop/common"
	"github.com/icon-project/goloop/common/codec"

	"verif/lib/gen"
)

// lengths at which RLP headers change shape
var lenBoundaries = []int{0, 1, 2, 54, 55, 56, 57, 255, 256, 257}

func genLen(r *rand.Rand, big bool) int {
	switch r.Intn(8) {
	case 0:
		return 0
	case 1:
		return 1
	case 2:
		return lenBoundaries[r.Intn(len(lenBoundaries))]
	case 3:
		if big && r.Intn(20) == 0 {
			return gen.Pick(r, 65535, 65536, 65537, 70000)
		}
		return r.Intn(300)
	default:
		return r.Intn(12)
	}
}

func genBytes(r *rand.Rand) []byte {
	n := genLen(r, true)
	b := make([]byte, n)
	switch r.Intn(4) {
	case 0:
		for i := range b {
			b[i] = byte(r.Intn(0x80))
		}
	case 1:
		for i := range b {
			b[i] = byte(0x80 + r.Intn(0x80))
		}
	default:
		r.Read(b)
	}
	if n == 1 && r.Intn(2) == 0 {
		b[0] = gen.Pick(r, byte(0), byte(0x7f), byte(0x80), byte(0xff), byte(0xc0), byte(0xf8))
	}
	return b
}

func genIntBits(r *rand.Rand, bits int) int64 {
	switch r.Intn(3) {
	case 0:
		k := uint(r.Intn(bits))
		v := int64(1) << k
		v += int64(r.Intn(3) - 1)
		if r.Intn(2) == 0 {
			v = -v
		}
		return wrapInt(v, bits)
	case 1:
		return wrapInt(int64(r.Intn(600)-300), bits)
	default:
		return wrapInt(int64(r.Uint64()), bits)
	}
}

func wrapInt(v int64, bits int) int64 {
	if bits == 64 {
		return v
	}
	sh := uint(64 - bits)
	return (v << sh) >> sh
}

func genUintBits(r *rand.Rand, bits int) uint64 {
	var v uint64
	switch r.Intn(3) {
	case 0:
		k := uint(r.Intn(bits))
		v = uint64(1) << k
		v += uint64(r.Intn(3)) - 1
	case 1:
		v = uint64(r.Intn(600))
	default:
		v = r.Uint64()
	}
	if bits < 64 {
		v &= 1<<uint(bits) - 1
	}
	return v
}

// genAny builds a value tree for codec.EncodeAny.
func genAny(r *rand.Rand, depth int) interface{} {
	k := r.Intn(9)
	if depth >= 3 && k >= 5 {
		k = r.Intn(5)
	}
	switch k {
	case 0:
		return nil
	case 1:
		return string(genBytes(r))
	case 2:
		if r.Intn(6) == 0 {
			return []byte(nil)
		}
		return genBytes(r)
	case 3:
		return r.Intn(2) == 0
	case 4:
		h := new(common.HexInt)
		h.Set(gen.BigInt(r, 300))
		return h
	case 5, 6:
		n := r.Intn(5)
		l := make([]interface{}, n)
		for i := range l {
			l[i] = genAny(r, depth+1)
		}
		return l
	case 7:
		var a common.Address
		r.Read(a[:])
		a[0] = byte(r.Intn(2))
		return &a
	default:
		n := r.Intn(5)
		m := make(map[string]interface{}, n)
		for i := 0; i < n; i++ {
			kb := genBytes(r)
			if len(kb) > 8 {
				kb = kb[:8]
			}
			m[string(kb)+fmt.Sprint(r.Intn(4))] = genAny(r, depth+1)
		}
		return m
	}
}

// genValue returns a random value of type t.
func genValue(r *rand.Rand, t reflect.Type, depth int) reflect.Value {
	v := reflect.New(t).Elem()
	switch t {
	case bigIntType:
		v.Set(reflect.ValueOf(*gen.BigInt(r, 400)))
		return v
	case hexIntType:
		var h common.HexInt
		h.Set(gen.BigInt(r, 400))
		v.Set(reflect.ValueOf(h))
		return v
	case typedObjType:
		to, err := common.EncodeAny(genAny(r, depth))
		if err != nil {
			panic(err)
		}
		v.Set(reflect.ValueOf(*to))
		return v
	case binType:
		v.Field(0).SetBytes(append([]byte{}, genBytes(r)...))
		return v
	}
	switch t.Kind() {
	case reflect.Bool:
		v.SetBool(r.Intn(2) == 0)
	case reflect.Int, reflect.Int64:
		v.SetInt(genIntBits(r, 64))
	case reflect.Int8:
		v.SetInt(genIntBits(r, 8))
	case reflect.Int16:
		v.SetInt(genIntBits(r, 16))
	case reflect.Int32:
		v.SetInt(genIntBits(r, 32))
	case reflect.Uint, reflect.Uint64:
		v.SetUint(genUintBits(r, 64))
	case reflect.Uint8:
		v.SetUint(genUintBits(r, 8))
	case reflect.Uint16:
		v.SetUint(genUintBits(r, 16))
	case reflect.Uint32:
		v.SetUint(genUintBits(r, 32))
	case reflect.String:
		v.SetString(string(genBytes(r)))
	case reflect.Slice:
		if t.Elem().Kind() == reflect.Uint8 {
			switch r.Intn(6) {
			case 0: // nil
			case 1:
				v.SetBytes([]byte{})
			default:
				v.SetBytes(genBytes(r))
			}
			return v
		}
		switch r.Intn(6) {
		case 0: // nil
		case 1:
			v.Set(reflect.MakeSlice(t, 0, 0))
		default:
			n := 1 + r.Intn(6)
			if depth == 0 && r.Intn(6) == 0 {
				n = 20 + r.Intn(60) // payload beyond 55 bytes
			}
			if depth >= 3 {
				n = 1 + r.Intn(2)
			}
			s := reflect.MakeSlice(t, n, n)
			for i := 0; i < n; i++ {
				s.Index(i).Set(genValue(r, t.Elem(), depth+1))
			}
			v.Set(s)
		}
	case reflect.Array:
		for i := 0; i < t.Len(); i++ {
			v.Index(i).Set(genValue(r, t.Elem(), depth+1))
		}
	case reflect.Ptr:
		if r.Intn(4) == 0 || depth >= 5 {
			return v // nil
		}
		p := reflect.New(t.Elem())
		p.Elem().Set(genValue(r, t.Elem(), depth+1))
		v.Set(p)
	case reflect.Struct:
		for i := 0; i < t.NumField(); i++ {
			f := v.Field(i)
			if !f.CanSet() {
				continue
			}
			f.Set(genValue(r, t.Field(i).Type, depth+1))
		}
	case reflect.Map:
		switch r.Intn(6) {
		case 0: // nil
		case 1:
			v.Set(reflect.MakeMap(t))
		default:
			n := 1 + r.Intn(6)
			if depth == 0 && r.Intn(6) == 0 {
				n = 20 + r.Intn(40)
			}
			m := reflect.MakeMap(t)
			for i := 0; i < n; i++ {
				m.SetMapIndex(genValue(r, t.Key(), depth+1), genValue(r, t.Elem(), depth+1))
			}
			v.Set(m)
		}
	default:
		panic("harness: unsupported kind " + t.String())
	}
	return v
}

// rebuildMap returns a copy of map m built by inserting the keys in a random order.
func rebuildMap(r *rand.Rand, m reflect.Value) reflect.Value {
	if m.IsNil() {
		return m
	}
	keys := m.MapKeys()
	r.Shuffle(len(keys), func(i, j int) { keys[i], keys[j] = keys[j], keys[i] })
	n := reflect.MakeMapWithSize(m.Type(), 0)
	for _, k := range keys {
		n.SetMapIndex(k, m.MapIndex(k))
	}
	return n
}

// ---- comparison ----

// canonTyped turns a TypedObj tree into plain comparable values.
func canonTyped(o *codec.TypedObj) interface{} {
	if o == nil {
		return "nil-ptr"
	}
	switch obj := o.Object.(type) {
	case nil:
		return []interface{}{o.Type, "nil-object"}
	case *codec.TypedDict:
		if obj == nil {
			return []interface{}{o.Type, "nil-dict"}
		}
		keys := obj.Keys
		if len(keys) != len(obj.Map) {
			keys = nil
			for k := range obj.Map {
				keys = append(keys, k)
			}
			sort.Strings(keys)
		}
		l := []interface{}{o.Type, "dict"}
		for _, k := range keys {
			l = append(l, k, canonTyped(obj.Map[k]))
		}
		return l
	case []*codec.TypedObj:
		l := []interface{}{o.Type, "list", obj == nil}
		for _, e := range obj {
			l = append(l, canonTyped(e))
		}
		return l
	case string:
		return []interface{}{o.Type, "string", obj}
	case []byte:
		return []interface{}{o.Type, "bytes", obj == nil, fmt.Sprintf("%x", obj)}
	default:
		return []interface{}{o.Type, fmt.Sprintf("other:%T", obj)}
	}
}

// diff returns "" when a and b (same type) are equal in the sense of the
// property: same numbers, same bytes, same nil-ness of every slice, map and
// pointer, exported fields only. The path of a difference is assembled only
// when there is one.
func diff(a, b reflect.Value, path string) string {
	if d := diff1(a, b); d != "" {
		return path + d
	}
	return ""
}

func short(s string) string {
	if len(s) > 80 {
		return s[:80] + "..."
	}
	return s
}

func diff1(a, b reflect.Value) string {
	t := a.Type()
	switch t {
	case bigIntType:
		x := a.Interface().(big.Int)
		y := b.Interface().(big.Int)
		if x.Cmp(&y) != 0 {
			return fmt.Sprintf(": big %s != %s", x.String(), y.String())
		}
		return ""
	case binType:
		// a BinaryMarshaler's payload: bytes only (nil-ness is the type's own business)
		if string(a.Field(0).Bytes()) != string(b.Field(0).Bytes()) {
			return fmt.Sprintf(": bin %s != %s", short(fmt.Sprintf("%x", a.Field(0).Bytes())), short(fmt.Sprintf("%x", b.Field(0).Bytes())))
		}
		return ""
	case typedObjType:
		x := a.Interface().(codec.TypedObj)
		y := b.Interface().(codec.TypedObj)
		if !reflect.DeepEqual(canonTyped(&x), canonTyped(&y)) {
			return fmt.Sprintf(": typed %s != %s", short(fmt.Sprint(canonTyped(&x))), short(fmt.Sprint(canonTyped(&y))))
		}
		return ""
	}
	switch t.Kind() {
	case reflect.Bool:
		if a.Bool() != b.Bool() {
			return fmt.Sprintf(": %v != %v", a.Bool(), b.Bool())
		}
	case reflect.Int, reflect.Int8, reflect.Int16, reflect.Int32, reflect.Int64:
		if a.Int() != b.Int() {
			return fmt.Sprintf(": %d != %d", a.Int(), b.Int())
		}
	case reflect.Uint, reflect.Uint8, reflect.Uint16, reflect.Uint32, reflect.Uint64:
		if a.Uint() != b.Uint() {
			return fmt.Sprintf(": %d != %d", a.Uint(), b.Uint())
		}
	case reflect.String:
		if a.String() != b.String() {
			return fmt.Sprintf(": %s != %s", short(fmt.Sprintf("%q", a.String())), short(fmt.Sprintf("%q", b.String())))
		}
	case reflect.Slice:
		if a.IsNil() != b.IsNil() {
			return fmt.Sprintf(": nil-ness %v != %v (len %d, %d)", a.IsNil(), b.IsNil(), a.Len(), b.Len())
		}
		if a.Len() != b.Len() {
			return fmt.Sprintf(": len %d != %d", a.Len(), b.Len())
		}
		if t.Elem().Kind() == reflect.Uint8 {
			if string(a.Bytes()) != string(b.Bytes()) {
				return fmt.Sprintf(": bytes %s != %s", short(fmt.Sprintf("%x", a.Bytes())), short(fmt.Sprintf("%x", b.Bytes())))
			}
			return ""
		}
		for i := 0; i < a.Len(); i++ {
			if d := diff1(a.Index(i), b.Index(i)); d != "" {
				return fmt.Sprintf("[%d]%s", i, d)
			}
		}
	case reflect.Array:
		for i := 0; i < a.Len(); i++ {
			if d := diff1(a.Index(i), b.Index(i)); d != "" {
				return fmt.Sprintf("[%d]%s", i, d)
			}
		}
	case reflect.Ptr:
		if a.IsNil() != b.IsNil() {
			return fmt.Sprintf(": nil-ness %v != %v", a.IsNil(), b.IsNil())
		}
		if !a.IsNil() {
			if d := diff1(a.Elem(), b.Elem()); d != "" {
				return ".*" + d
			}
		}
	case reflect.Struct:
		for i := 0; i < t.NumField(); i++ {
			if !a.Field(i).CanInterface() {
				continue
			}
			if d := diff1(a.Field(i), b.Field(i)); d != "" {
				return "." + t.Field(i).Name + d
			}
		}
	case reflect.Map:
		if a.IsNil() != b.IsNil() {
			return fmt.Sprintf(": nil-ness %v != %v (len %d, %d)", a.IsNil(), b.IsNil(), a.Len(), b.Len())
		}
		if a.Len() != b.Len() {
			return fmt.Sprintf(": len %d != %d", a.Len(), b.Len())
		}
		for _, k := range a.MapKeys() {
			bv := b.MapIndex(k)
			if !bv.IsValid() {
				return fmt.Sprintf(": key %s missing", short(fmt.Sprint(k)))
			}
			if d := diff1(a.MapIndex(k), bv); d != "" {
				return fmt.Sprintf("[%s]%s", short(fmt.Sprint(k)), d)
			}
		}
	default:
		return ": harness cannot compare " + t.String()
	}
	return ""
}
