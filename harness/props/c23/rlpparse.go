package c23

import (
	"errors"
	"math/big"
)

// An independent, strict reader of the wire format (written from the format
// rules, not from rlp.go): used to look at encodings from the outside (map
// key order, declared sizes versus available bytes).

type rKind int

const (
	rBytes rKind = iota
	rList
	rNull
)

type rItem struct {
	kind rKind
	data []byte // payload of a byte string
	kids []rItem
}

var (
	errTruncated = errors.New("declared size beyond the input")
	errBadSize   = errors.New("size field does not fit")
)

// rHeader reads one header: payload offset, payload length, kind.
func rHeader(b []byte) (off int, n uint64, kind rKind, err error) {
	if len(b) == 0 {
		return 0, 0, 0, errTruncated
	}
	t := b[0]
	switch {
	case t < 0x80:
		return 0, 1, rBytes, nil
	case t <= 0xb7:
		return 1, uint64(t - 0x80), rBytes, nil
	case t < 0xc0:
		ls := int(t - 0xb7)
		if len(b) < 1+ls {
			return 0, 0, 0, errTruncated
		}
		return 1 + ls, beUint(b[1 : 1+ls]), rBytes, nil
	case t <= 0xf7:
		return 1, uint64(t - 0xc0), rList, nil
	default:
		ls := int(t - 0xf7)
		if len(b) < 1+ls {
			return 0, 0, 0, errTruncated
		}
		n := beUint(b[1 : 1+ls])
		if ls == 1 && n == 0 {
			return 2, 0, rNull, nil
		}
		return 1 + ls, n, rList, nil
	}
}

func beUint(b []byte) uint64 {
	var v uint64
	for _, x := range b {
		v = v<<8 | uint64(x)
	}
	return v
}

// topLevelTruncated reports whether the first item of b declares more
// payload than b holds.
func topLevelTruncated(b []byte) bool {
	off, n, _, err := rHeader(b)
	if err != nil {
		return true
	}
	return n > uint64(len(b)-off)
}

// rParse parses one item strictly.
func rParse(b []byte, depth int) (it rItem, rest []byte, err error) {
	off, n, kind, err := rHeader(b)
	if err != nil {
		return it, nil, err
	}
	if n > uint64(len(b)-off) {
		return it, nil, errTruncated
	}
	payload := b[off : off+int(n)]
	rest = b[off+int(n):]
	it.kind = kind
	switch kind {
	case rBytes:
		it.data = payload
	case rList:
		if depth > 200 {
			return it, rest, nil
		}
		for len(payload) > 0 {
			var kid rItem
			kid, payload, err = rParse(payload, depth+1)
			if err != nil {
				return it, nil, err
			}
			it.kids = append(it.kids, kid)
		}
	}
	return it, rest, nil
}

// twos interprets b as a two's complement big-endian number (empty = 0).
func twos(b []byte) *big.Int {
	v := new(big.Int).SetBytes(b)
	if len(b) > 0 && b[0]&0x80 != 0 {
		v.Sub(v, new(big.Int).Lsh(big.NewInt(1), uint(8*len(b))))
	}
	return v
}

// minimalTwos is the shortest (>= 1 byte) two's complement form of x.
func minimalTwos(x *big.Int) []byte {
	for l := 1; ; l++ {
		hi := new(big.Int).Lsh(big.NewInt(1), uint(8*l-1))
		lo := new(big.Int).Neg(hi)
		if x.Cmp(lo) >= 0 && x.Cmp(hi) < 0 {
			y := new(big.Int).Set(x)
			if y.Sign() < 0 {
				y.Add(y, new(big.Int).Lsh(big.NewInt(1), uint(8*l)))
			}
			return y.FillBytes(make([]byte, l))
		}
	}
}

// wString wraps a payload as a byte-string item (the harness's own writer, for crafted inputs).
func wString(p []byte) []byte {
	if len(p) == 1 && p[0] < 0x80 {
		return []byte{p[0]}
	}
	return append(wHeader(0x80, uint64(len(p))), p...)
}

func wList(payload []byte) []byte {
	return append(wHeader(0xc0, uint64(len(payload))), payload...)
}

func wHeader(base byte, n uint64) []byte {
	if n <= 55 {
		return []byte{base + byte(n)}
	}
	var sz []byte
	for v := n; v > 0; v >>= 8 {
		sz = append([]byte{byte(v)}, sz...)
	}
	return append([]byte{base + 55 + byte(len(sz))}, sz...)
}
