package c23

import (
	"errors"
	"math/rand"

	"github.com/icon-project/goloop/common/codec"

	"verif/lib/gen"
)

// Values whose encoding is REJECTED after a container was already opened.
// They are not "supported values"; they are the first step of two-step
// sequences: a rejected call on the shared codec followed by an ordinary one.

var errRejected = errors.New("harness: rejected on purpose")

type failBin struct {
	Fail bool
	V    []byte
}

func (b *failBin) MarshalBinary() ([]byte, error) {
	if b.Fail {
		return nil, errRejected
	}
	return append([]byte{}, b.V...), nil
}

type failSelf struct {
	N    int64
	S    string
	Fail bool
}

func (f *failSelf) RLPEncodeSelf(e codec.Encoder) error {
	e2, err := e.EncodeList()
	if err != nil {
		return err
	}
	if err := e2.EncodeMulti(f.S, f.N); err != nil {
		return err
	}
	if f.Fail {
		return errRejected
	}
	return nil
}

type failRaw struct{ Fail bool }

func (f *failRaw) MarshalRLP() ([]byte, error) {
	if f.Fail {
		return nil, errRejected
	}
	return []byte{0x01}, nil
}

type rejBin struct {
	Height int64
	Name   string
	B      failBin
}
type rejSelf struct {
	A []byte
	F failSelf
}
type rejRaw struct {
	A uint32
	L []string
	R failRaw
}
type rejChan struct {
	A string
	C chan int
}
type rejFunc struct {
	L []interface{}
}
type rejMapKey struct {
	A uint16
	M map[bool]int
}
type rejDeep struct {
	Tag string
	L   []*rejBin
	M   map[string]*rejSelf
}

// rejectedEncode performs one MarshalToBytes that must fail; returns its kind
// and whether it was indeed rejected.
func rejectedEncode(r *rand.Rand) (kind string, rejected bool) {
	var v interface{}
	switch r.Intn(9) {
	case 0:
		kind, v = "nested-MarshalBinary-error", &rejBin{Height: int64(r.Intn(1000)), Name: string(gen.Bytes(r, r.Intn(70))), B: failBin{Fail: true}}
	case 1:
		kind, v = "nested-RLPEncodeSelf-error", &rejSelf{A: gen.Bytes(r, r.Intn(20)), F: failSelf{N: r.Int63(), S: "partial", Fail: true}}
	case 2:
		kind, v = "nested-MarshalRLP-error", &rejRaw{A: r.Uint32(), L: []string{"x", string(gen.Bytes(r, r.Intn(60)))}, R: failRaw{Fail: true}}
	case 3:
		kind, v = "chan-in-struct", &rejChan{A: string(gen.Bytes(r, 1+r.Intn(30))), C: make(chan int)}
	case 4:
		kind, v = "func-in-list", &rejFunc{L: []interface{}{int64(r.Intn(100)), "abc", func() {}}}
	case 5:
		kind, v = "bad-map-key-nested", &rejMapKey{A: uint16(r.Intn(65536)), M: map[bool]int{true: 1}}
	case 6:
		kind, v = "bad-map-key-top-level", map[bool]int{true: 1, false: 2}
	case 7:
		d := &rejDeep{Tag: string(gen.Bytes(r, r.Intn(10))), M: map[string]*rejSelf{}}
		for i := r.Intn(3); i >= 0; i-- {
			d.L = append(d.L, &rejBin{Height: int64(i), Name: "ok", B: failBin{V: []byte{1}}})
		}
		if r.Intn(2) == 0 {
			d.L = append(d.L, &rejBin{Height: 7, Name: "bad", B: failBin{Fail: true}})
			kind = "deep-list-MarshalBinary-error"
		} else {
			d.M["k"] = &rejSelf{A: []byte{9}, F: failSelf{N: 7, S: "bad", Fail: true}}
			kind = "deep-map-RLPEncodeSelf-error"
		}
		v = d
	default:
		kind, v = "slice-of-struct-with-chan", []*rejChan{{A: "a"}, {A: "b", C: make(chan int)}}
	}
	func() {
		defer func() {
			if p := recover(); p != nil {
				rejected = true // a panic is not what is judged here; the next ordinary call is
			}
		}()
		_, err := codec.BC.MarshalToBytes(v)
		rejected = err != nil
	}()
	return
}
