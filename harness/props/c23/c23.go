// Package c23: the RLP codec round-trips every supported value and rejects
// malformed input.
//
// Real code driven: codec.BC.MarshalToBytes / UnmarshalFromBytes / Marshal /
// Unmarshal over a closed family of Go types (types.go), codec.TypedObj /
// TypedDict, common.MarshalAny / UnmarshalAny (typed.go, typeddict.go).
package c23

import (
	"bytes"
	"encoding/hex"
	"fmt"
	"math/big"
	"math/rand"
	"reflect"
	"regexp"
	"runtime"
	"strings"

	"github.com/icon-project/goloop/common"
	"github.com/icon-project/goloop/common/codec"
	"github.com/icon-project/goloop/common/log"

	"verif/lib/ev"
	"verif/lib/gen"
)

const (
	nRoundTrip = 150
	nHostile   = 400
	nOverflow  = 120
	nAny       = 20
)

func init() {
	ev.Register(&ev.Prop{
		ID:    "C23",
		Level: "exploration",
		Cases: func(t string) int {
			if t == ev.Thorough {
				return 32000
			}
			return 1280
		},
		Batches: func(t string) int { return 16 },
		Rule: fmt.Sprintf("each case = %d generated values of the type family (all int/uint widths, bool, string, []byte, byte/int arrays, *big.Int, HexInt, nested structs with embedded and unexported fields, pointers nil/non-nil, slices nil/empty/long, maps with string/int/uint keys incl. nested, types with RLPEncodeSelf/BinaryMarshaler/MarshalRLP codecs, TypedObj trees) encoded (every third one right after a REJECTED encode on the shared codec: nested MarshalBinary/RLPEncodeSelf/MarshalRLP error, chan/func inside a struct/list, bad map key nested or top-level; the pooled result is compared with a fresh non-pooled encoder), encoded again, decoded and compared (numbers, bytes, nil-ness of every slice/map/pointer); maps rebuilt in another insertion order must encode to the same bytes and their keys must be strictly ascending when the encoding is read by the harness's own RLP reader; + %d hostile inputs (random bytes, mutated valid encodings, truncations, size fields up to 2^64-1 with few bytes following, non-minimal headers, nesting up to 350 (thorough 1050)) decoded into a family type and through UnmarshalAny: no panic, a fixed canary value encoded right afterwards (half of the time after a further rejected encode) gives the bytes it gave at process start and its encoding decoded right afterwards still yields its value (no decoder state kept between calls), truncated top-level item => error, bounded allocation, and an accepted input must re-encode and decode to the same value; + %d crafted integers per case: an integer byte string is accepted only if the decoded value equals the encoded number (no overflow/truncation for int8..int64, uint8..uint64, bool), in-range minimal encodings are accepted; + %d MarshalAny/UnmarshalAny trees. In every 20th case of a batch 4 goroutines concurrently marshal/unmarshal their own values (64-512 KiB payload structs, generator values, any-trees) through codec.BC, codec.RLP, codec.MP and MarshalAny, once pinned to one P and once with the child's GOMAXPROCS; each result must equal the bytes computed single-threaded beforehand and decode back. Non-trivial = distinct (type, encoding) with a list or >= 3 bytes.", nRoundTrip, nHostile, nOverflow, nAny),
		MinNonTrivial: func(t string) int { return 50000 },
		Required: []string{"roundtrip_values", "encode_twice_equal", "map_order_checked", "map_rebuilt_equal", "nil_slices", "empty_slices", "nil_maps", "empty_maps", "nil_pointers",
			"long_payloads", "hostile_inputs", "hostile_rejected", "hostile_accepted", "hostile_reencode_checked", "top_truncated_rejected", "alloc_guard_checked",
			"overflow_rejected", "int_in_range_accepted", "any_roundtrips", "any_hostile", "stream_api_roundtrips", "custom_codec_values", "canary_decodes", "canary_encodes", "concurrent_marshals", "concurrent_large_payload_marshals", "concurrent_unmarshals", "concurrent_marshalany", "concurrent_mp_marshals", "concurrent_phases_one_p", "concurrent_phases_default_p", "rejected_encodes", "sequences_rejected_encode_then_roundtrip",
			"rejected_encode_nested-MarshalBinary-error", "rejected_encode_nested-RLPEncodeSelf-error", "rejected_encode_chan-in-struct", "rejected_encode_bad-map-key-nested", "rejected_encode_deep-list-MarshalBinary-error"},
		Assumptions: []string{
			"Go reflect/math/big and the harness's own RLP header reader are the reference",
			"supported values: shapes whose nil/empty forms the format can tell apart (no pointer-to-slice/map/pointer, no interface fields, custom codecs only where addressable); []byte inside a BinaryMarshaler type is compared without nil-ness",
			"decode time is not judged (nesting depth d costs O(d^2) reads through nested limit readers)",
		},
		TimeoutSec: func(t string) int {
			if t == ev.Thorough {
				return 5400
			}
			return 900
		},
		// single-goroutine check: keep the GC from fanning out over all cores
		Env: func(string, int) []string { return []string{"GOMAXPROCS=2", "GOGC=200"} },
		Run: run,
	})
}

func hx(b []byte) string {
	if len(b) > 4096 {
		return hex.EncodeToString(b[:4096]) + fmt.Sprintf("...(%d bytes)", len(b))
	}
	return hex.EncodeToString(b)
}

var nonKey = regexp.MustCompile(`[^a-zA-Z0-9]+`)

func panicKey(p interface{}) string {
	s := fmt.Sprint(p)
	if len(s) > 70 {
		s = s[:70]
	}
	return strings.Trim(nonKey.ReplaceAllString(s, "-"), "-")
}

// decodeInto decodes in into a fresh value of type t, catching panics.
func decodeInto(t reflect.Type, in []byte) (v reflect.Value, rest []byte, err error, pan interface{}) {
	defer func() {
		if r := recover(); r != nil {
			pan = r
		}
	}()
	p := reflect.New(t)
	rest, err = codec.BC.UnmarshalFromBytes(in, p.Interface())
	return p.Elem(), rest, err, nil
}

func encodeValue(v reflect.Value) (b []byte, err error, pan interface{}) {
	defer func() {
		if r := recover(); r != nil {
			pan = r
		}
	}()
	b, err = codec.BC.MarshalToBytes(v.Addr().Interface())
	return
}

func unmarshalAny(in []byte) (v interface{}, err error, pan interface{}) {
	defer func() {
		if r := recover(); r != nil {
			pan = r
		}
	}()
	v, err = common.UnmarshalAny(codec.BC, in)
	return
}

type chk struct {
	c *ev.Ctx
	r *rand.Rand
}

// canary: a fixed valid encoding decoded after every hostile input
type canaryT struct {
	S string
	N int32
	U uint16
}

var canaryWant = canaryT{"abcdefgh-canary", -123456, 0xbeef}
var canaryEnc = codec.BC.MustMarshalToBytes(&canaryWant)

func decodeCanary(out *canaryT) (rest []byte, err error, pan interface{}) {
	defer func() {
		if r := recover(); r != nil {
			pan = r
		}
	}()
	rest, err = codec.BC.UnmarshalFromBytes(canaryEnc, out)
	return
}

func fam(name string) famType {
	for _, f := range family {
		if f.name == name {
			return f
		}
	}
	panic("harness: no family type " + name)
}

func pickType(r *rand.Rand) famType {
	if r.Intn(5) == 0 {
		return fam("All")
	}
	return family[r.Intn(len(family))]
}

// shape counters: what kinds of nil/empty the value holds
func (k *chk) shapes(v reflect.Value) {
	c := k.c
	switch v.Kind() {
	case reflect.Slice:
		if v.IsNil() {
			c.Count("nil_slices", 1)
		} else if v.Len() == 0 {
			c.Count("empty_slices", 1)
		}
		if v.Type().Elem().Kind() != reflect.Uint8 {
			for i := 0; i < v.Len(); i++ {
				k.shapes(v.Index(i))
			}
		}
	case reflect.Map:
		if v.IsNil() {
			c.Count("nil_maps", 1)
		} else if v.Len() == 0 {
			c.Count("empty_maps", 1)
		}
	case reflect.Ptr:
		if v.IsNil() {
			c.Count("nil_pointers", 1)
		} else {
			k.shapes(v.Elem())
		}
	case reflect.Struct:
		if v.Type() == bigIntType || v.Type() == typedObjType {
			return
		}
		for i := 0; i < v.NumField(); i++ {
			if v.Field(i).CanInterface() {
				k.shapes(v.Field(i))
			}
		}
	}
}

func hasCustom(t reflect.Type) bool {
	switch t {
	case typeOf[Custom](), typeOf[*Custom](), typeOf[[]Custom](), typeOf[[]*Custom](), typeOf[Bin](), typeOf[Raw](), typeOf[All](), typedObjType, typeOf[*codec.TypedObj](), typeOf[WithTyped](), hexIntType:
		return true
	}
	return false
}

func (k *chk) roundTrip(sub int) {
	c, r := k.c, k.r
	ft := pickType(r)
	v := genValue(r, ft.t, 0)
	c.Note("rt sub=%d type=%s", sub, ft.name)
	c.Eval(1)
	c.Count("roundtrip_values", 1)
	if hasCustom(ft.t) {
		c.Count("custom_codec_values", 1)
	}
	k.shapes(v)
	// two-step sequences on the shared codec: a rejected encode (and sometimes
	// a rejected decode) right before the ordinary one
	afterRejected := ""
	if sub%3 == 0 {
		if r.Intn(3) == 0 {
			decodeInto(fam("All").t, gen.Bytes(r, 1+r.Intn(20)))
		}
		kind, rejected := rejectedEncode(r)
		c.Note("rt sub=%d rejected-encode kind=%s", sub, kind)
		if rejected {
			afterRejected = kind
			c.Count("rejected_encodes", 1)
			c.Count("rejected_encode_"+kind, 1)
		} else {
			c.Count("rejected_encode_was_accepted", 1)
		}
	}
	enc, err, pan := encodeValue(v)
	if pan != nil {
		c.Violation("encode.panic."+panicKey(pan), map[string]interface{}{"type": ft.name, "value": fmt.Sprintf("%+v", v.Interface()), "panic": fmt.Sprint(pan)})
		return
	}
	if err != nil {
		c.Violation("encode.error", map[string]interface{}{"type": ft.name, "value": fmt.Sprintf("%+v", v.Interface()), "err": err.Error()})
		return
	}
	if len(enc) > 57 {
		c.Count("long_payloads", 1)
	}
	// deterministic: a second encode (pooled encoder reused) gives the same bytes
	enc2, err, _ := encodeValue(v)
	if (err != nil || !bytes.Equal(enc, enc2)) && afterRejected != "" {
		c.Violation("encode.state-leak.after-rejected-encode.not-deterministic", map[string]interface{}{"type": ft.name, "rejected_kind": afterRejected, "first": hx(enc), "second": hx(enc2)})
	} else if err != nil || !bytes.Equal(enc, enc2) {
		c.Violation("encode.not-deterministic", map[string]interface{}{"type": ft.name, "first": hx(enc), "second": hx(enc2)})
	} else {
		c.Count("encode_twice_equal", 1)
	}
	out, rest, err, pan := decodeInto(ft.t, enc)
	if pan != nil {
		c.Violation("roundtrip.decode-panic."+panicKey(pan), map[string]interface{}{"type": ft.name, "encoding": hx(enc), "panic": fmt.Sprint(pan)})
		return
	}
	if err != nil {
		c.Violation("roundtrip.decode-error", map[string]interface{}{"type": ft.name, "encoding": hx(enc), "value": fmt.Sprintf("%+v", v.Interface()), "err": err.Error()})
		return
	}
	if d := diff(v, out, ft.name); d != "" {
		key := "roundtrip.value-differs"
		if strings.Contains(d, "nil-ness") {
			key = "roundtrip.nil-empty-confused"
		}
		c.Violation(key, map[string]interface{}{"type": ft.name, "encoding": hx(enc), "difference": d})
	}
	if len(rest) != 0 {
		c.Violation("roundtrip.bytes-left-over", map[string]interface{}{"type": ft.name, "encoding": hx(enc), "left": hx(rest)})
	}
	// the io.Writer / io.Reader entry points
	if sub%6 == 0 || afterRejected != "" {
		var buf bytes.Buffer
		if err := codec.BC.Marshal(&buf, v.Addr().Interface()); err == nil && !bytes.Equal(buf.Bytes(), enc) && afterRejected != "" {
			// the pooled encoder and a fresh one disagree right after a rejected encode
			c.Violation("encode.state-leak.after-rejected-encode", map[string]interface{}{"type": ft.name, "rejected_kind": afterRejected, "pooled_encoder_bytes": hx(enc), "fresh_encoder_bytes": hx(buf.Bytes())})
		} else if err != nil || !bytes.Equal(buf.Bytes(), enc) {
			c.Violation("encode.stream-differs", map[string]interface{}{"type": ft.name, "bytes": hx(enc), "stream": hx(buf.Bytes()), "err": fmt.Sprint(err)})
		}
		o2 := reflect.New(ft.t)
		if err := codec.BC.Unmarshal(bytes.NewReader(enc), o2.Interface()); err != nil {
			c.Violation("roundtrip.stream-decode-error", map[string]interface{}{"type": ft.name, "encoding": hx(enc), "err": err.Error()})
		} else if d := diff(v, o2.Elem(), ft.name); d != "" {
			c.Violation("roundtrip.stream-value-differs", map[string]interface{}{"type": ft.name, "encoding": hx(enc), "difference": d})
		}
		c.Count("stream_api_roundtrips", 1)
	}
	if afterRejected != "" {
		c.Count("sequences_rejected_encode_then_roundtrip", 1)
	}
	// maps: insertion order must not matter, keys ascending on the wire
	k.mapChecks(ft, v, enc)

	if len(enc) >= 3 || (len(enc) > 0 && enc[0] >= 0xc0) {
		c.NonTrivial(ft.name + string(enc))
	}
	if sub < 2 && c.WantSample() && len(enc) < 200 {
		c.Sample(map[string]interface{}{"type": ft.name, "value": fmt.Sprintf("%+v", v.Interface()), "encoding": hx(enc)})
	}
}

func (k *chk) mapChecks(ft famType, v reflect.Value, enc []byte) {
	c, r := k.c, k.r
	t := ft.t
	var v2 reflect.Value
	switch {
	case t.Kind() == reflect.Map:
		if v.IsNil() {
			return
		}
		v2 = reflect.New(t).Elem()
		v2.Set(rebuildMap(r, v))
		// wire order, read with the harness's own reader
		it, rest, err := rParse(enc, 0)
		if err != nil || len(rest) != 0 || it.kind != rList || len(it.kids)%2 != 0 || len(it.kids)/2 != v.Len() {
			c.Violation("map.encoding-not-a-key-value-list", map[string]interface{}{"type": ft.name, "encoding": hx(enc), "entries": v.Len(), "parse_err": fmt.Sprint(err)})
			return
		}
		for i := 2; i < len(it.kids); i += 2 {
			a, b := it.kids[i-2], it.kids[i]
			var asc bool
			if t.Key().Kind() == reflect.String {
				asc = bytes.Compare(a.data, b.data) < 0
			} else {
				asc = twos(a.data).Cmp(twos(b.data)) < 0
			}
			if !asc {
				c.Violation("map.keys-not-ascending", map[string]interface{}{"type": ft.name, "encoding": hx(enc), "key_i": hx(a.data), "key_i+1": hx(b.data)})
				return
			}
		}
		c.Count("map_order_checked", 1)
	case t == typeOf[All]():
		v2 = reflect.New(t).Elem()
		v2.Set(v)
		for i := 0; i < t.NumField(); i++ {
			if t.Field(i).Type.Kind() == reflect.Map && v2.Field(i).CanSet() {
				v2.Field(i).Set(rebuildMap(r, v.Field(i)))
			}
		}
	default:
		return
	}
	encB, err, _ := encodeValue(v2)
	if err != nil || !bytes.Equal(encB, enc) {
		c.Violation("map.insertion-order-changes-encoding", map[string]interface{}{"type": ft.name, "first": hx(enc), "rebuilt": hx(encB)})
		return
	}
	c.Count("map_rebuilt_equal", 1)
}

// ---- hostile inputs ----

var tagBytes = []byte{0x00, 0x7f, 0x80, 0x81, 0xb7, 0xb8, 0xb9, 0xbf, 0xc0, 0xc1, 0xf7, 0xf8, 0xf9, 0xff}

var lieSizes = []uint64{56, 255, 256, 65535, 999999, 1000000, 1000001, 1 << 24, 1<<31 - 1, 1 << 31, 1<<32 - 1, 1 << 32, 1 << 62, 1<<63 - 1, 1 << 63, 1<<64 - 1}

func sizeField(n uint64, width int) []byte {
	b := make([]byte, width)
	for i := width - 1; i >= 0; i-- {
		b[i] = byte(n)
		n >>= 8
	}
	return b
}

func (k *chk) validEncoding(t reflect.Type) []byte {
	v := genValue(k.r, t, 1)
	b, err, pan := encodeValue(v)
	if err != nil || pan != nil {
		return []byte{0xc0}
	}
	return b
}

func (k *chk) hostileInput(t reflect.Type) ([]byte, string) {
	r := k.r
	switch r.Intn(16) {
	case 0, 1:
		b := gen.Bytes(r, r.Intn(40))
		if len(b) > 0 && r.Intn(2) == 0 {
			b[0] = tagBytes[r.Intn(len(tagBytes))]
		}
		return b, "random"
	case 2, 3, 4, 5, 6:
		src := t
		if r.Intn(4) == 0 {
			src = family[r.Intn(len(family))].t
		}
		b := append([]byte(nil), k.validEncoding(src)...)
		for n := 1 + r.Intn(3); n > 0 && len(b) > 0; n-- {
			i := r.Intn(len(b))
			switch r.Intn(8) {
			case 0:
				b[i] ^= 1 << uint(r.Intn(8))
			case 1:
				b[i] = tagBytes[r.Intn(len(tagBytes))]
			case 2:
				b = append(b[:i], b[i+1:]...)
			case 3:
				b = append(b[:i], append([]byte{byte(r.Intn(256))}, b[i:]...)...)
			case 4:
				b[i]++
			case 5:
				b[i]--
			case 6:
				j := i + r.Intn(len(b)-i)
				b = append(b[:j], append(append([]byte(nil), b[i:j]...), b[j:]...)...)
			default:
				// put the null sequence somewhere
				b = append(b[:i], append([]byte{0xf8, 0x00}, b[i:]...)...)
			}
		}
		return b, "mutated"
	case 7, 8:
		b := k.validEncoding(t)
		if len(b) <= 1 {
			return []byte{}, "truncated"
		}
		return append([]byte(nil), b[:r.Intn(len(b))]...), "truncated"
	case 9, 10, 11:
		// a size field far beyond what follows
		n := lieSizes[r.Intn(len(lieSizes))]
		width := 1
		for w := 1; w <= 8; w++ {
			if n>>(8*uint(w)) == 0 {
				width = w
				break
			}
			width = 8
		}
		if r.Intn(3) == 0 && width < 8 {
			width += r.Intn(8 - width + 1) // non-minimal size field
		}
		base := byte(0xb7)
		if r.Intn(2) == 0 {
			base = 0xf7
		}
		item := append([]byte{base + byte(width)}, sizeField(n, width)...)
		item = append(item, gen.Bytes(r, r.Intn(30))...)
		switch r.Intn(3) {
		case 0:
			return item, "size-lie"
		case 1:
			return wList(item), "size-lie"
		default:
			// after some valid items of the target's own encoding
			pre := k.validEncoding(t)
			if len(pre) > 0 && pre[0] >= 0xc0 && pre[0] <= 0xf7 {
				return wList(append(append([]byte(nil), pre[1:]...), item...)), "size-lie"
			}
			return wList(append(append([]byte(nil), pre...), item...)), "size-lie"
		}
	case 12:
		// non-minimal headers around a valid payload
		p := gen.Bytes(r, r.Intn(10))
		width := 1 + r.Intn(8)
		base := byte(0xb7)
		if r.Intn(2) == 0 {
			base = 0xf7
			p = k.validEncoding(t)
			if len(p) > 0 && p[0] >= 0xc0 && p[0] <= 0xf7 {
				p = p[1:]
			}
		}
		return append(append([]byte{base + byte(width)}, sizeField(uint64(len(p)), width)...), p...), "non-minimal"
	case 13:
		// integer one byte too long / sign games in a list of numbers
		var payload []byte
		for n := r.Intn(5); n >= 0; n-- {
			payload = append(payload, wString(gen.Bytes(r, r.Intn(11)))...)
		}
		return wList(payload), "number-list"
	default:
		return nil, "deep" // built by the caller (rationed)
	}
}

func deepInput(r *rand.Rand, depth int) []byte {
	b := []byte{byte(r.Intn(0x80))}
	if r.Intn(2) == 0 {
		b = []byte{0xc0}
	}
	for i := 0; i < depth; i++ {
		if r.Intn(3) == 0 {
			b = append([]byte{byte(r.Intn(0x80))}, b...) // a leading scalar: struct field / type tag
		}
		b = wList(b)
	}
	return b
}

func (k *chk) hostile(sub int, deepLeft *int) {
	c, r := k.c, k.r
	ft := pickType(r)
	in, class := k.hostileInput(ft.t)
	if class == "deep" {
		if *deepLeft <= 0 {
			in, class = gen.Bytes(r, r.Intn(20)), "random"
		} else {
			*deepLeft--
			in = deepInput(r, 50+r.Intn(k.c.Pick(300, 1000)))
			ft = gen.Pick(r, fam("Node"), fam("l_l_l_int8"), fam("TypedObj"), fam("WithTyped"), fam("All"))
		}
	}
	c.Eval(1)
	c.Count("hostile_inputs", 1)
	c.Count("hostile_"+class, 1)
	if len(in) <= 96 {
		c.Note("hostile sub=%d type=%s class=%s in=%x", sub, ft.name, class, in)
	} else {
		c.Note("hostile sub=%d type=%s class=%s len=%d head=%x", sub, ft.name, class, len(in), in[:64])
	}
	wit := func(extra map[string]interface{}) map[string]interface{} {
		m := map[string]interface{}{"type": ft.name, "class": class, "input": hx(in)}
		for kk, vv := range extra {
			m[kk] = vv
		}
		return m
	}

	guard := class == "size-lie" && len(in) <= 4096
	var ms0, ms1 runtime.MemStats
	if guard {
		runtime.ReadMemStats(&ms0)
	}
	v, _, err, pan := decodeInto(ft.t, in)
	if guard {
		runtime.ReadMemStats(&ms1)
		delta := ms1.TotalAlloc - ms0.TotalAlloc
		c.Count("alloc_guard_checked", 1)
		if delta > 256*1024+uint64(200*len(in)) {
			c.Violation("decode.allocates-past-input", wit(map[string]interface{}{"allocated_bytes": delta, "input_len": len(in)}))
		}
	}
	if pan != nil {
		c.Violation("decode.panic."+panicKey(pan), wit(map[string]interface{}{"panic": fmt.Sprint(pan)}))
		return
	}
	trunc := topLevelTruncated(in)
	if err == nil && trunc {
		c.Violation("decode.accepts-size-beyond-input", wit(map[string]interface{}{"decoded": fmt.Sprintf("%+v", v.Interface())}))
	}
	// the decoder keeps no state between calls: a valid encoding decoded right
	// after the hostile one must still give its value
	{
		seqKind := ""
		if sub%2 == 1 {
			if kind, rejected := rejectedEncode(r); rejected {
				seqKind = kind
				c.Count("rejected_encodes", 1)
			}
		}
		// the canary's bytes were obtained when the process started
		if ce, cerr := codec.BC.MarshalToBytes(&canaryWant); cerr != nil || !bytes.Equal(ce, canaryEnc) {
			c.Violation("encode.state-leak.canary-encoding-changed", wit(map[string]interface{}{"rejected_encode_before": seqKind, "hostile_decode_err": fmt.Sprint(err),
				"canary_at_start": hx(canaryEnc), "canary_now": hx(ce), "err": fmt.Sprint(cerr)}))
			return
		}
		c.Count("canary_encodes", 1)
		var canary canaryT
		_, cerr, cpan := decodeCanary(&canary)
		c.Count("canary_decodes", 1)
		if cpan != nil || cerr != nil || canary != canaryWant {
			c.Violation("decode.state-leak.next-valid-decode-corrupted", wit(map[string]interface{}{"hostile_decode_err": fmt.Sprint(err),
				"next_input": hx(canaryEnc), "next_expected": fmt.Sprintf("%+v", canaryWant), "next_got": fmt.Sprintf("%+v", canary), "next_err": fmt.Sprint(cerr), "next_panic": fmt.Sprint(cpan)}))
			return
		}
	}
	if err != nil {
		c.Count("hostile_rejected", 1)
		if trunc {
			c.Count("top_truncated_rejected", 1)
		}
	} else {
		c.Count("hostile_accepted", 1)
		if trunc {
			return
		}
		// an accepted input yields a supported value: it must re-encode and round-trip
		enc1, eerr, epan := encodeValue(v)
		if epan != nil {
			c.Violation("hostile.accepted-value.encode-panic."+panicKey(epan), wit(map[string]interface{}{"panic": fmt.Sprint(epan)}))
			return
		}
		if eerr != nil {
			c.Violation("hostile.accepted-value.encode-error", wit(map[string]interface{}{"err": eerr.Error()}))
			return
		}
		v2, _, derr, dpan := decodeInto(ft.t, enc1)
		if dpan != nil || derr != nil {
			c.Violation("hostile.accepted-value.not-decodable", wit(map[string]interface{}{"reencoded": hx(enc1), "err": fmt.Sprint(derr), "panic": fmt.Sprint(dpan)}))
			return
		}
		if d := diff(v, v2, ft.name); d != "" {
			c.Violation("hostile.accepted-value.roundtrip-differs", wit(map[string]interface{}{"reencoded": hx(enc1), "difference": d}))
			return
		}
		c.Count("hostile_reencode_checked", 1)
		if len(enc1) >= 3 {
			c.NonTrivial(ft.name + string(enc1))
		}
	}

	// the same bytes through the typed-object decoder
	if sub%2 == 0 || ft.t == typedObjType {
		c.Count("any_hostile", 1)
		if _, _, pan := unmarshalAny(in); pan != nil {
			c.Violation("unmarshalany.panic."+panicKey(pan), wit(map[string]interface{}{"panic": fmt.Sprint(pan)}))
		}
	}
}

// ---- integer overflow ----

var intKinds = []struct {
	name   string
	t      reflect.Type
	bits   int
	signed bool
}{
	{"int8", typeOf[int8](), 8, true}, {"int16", typeOf[int16](), 16, true}, {"int32", typeOf[int32](), 32, true}, {"int64", typeOf[int64](), 64, true}, {"int", typeOf[int](), 64, true},
	{"uint8", typeOf[uint8](), 8, false}, {"uint16", typeOf[uint16](), 16, false}, {"uint32", typeOf[uint32](), 32, false}, {"uint64", typeOf[uint64](), 64, false}, {"uint", typeOf[uint](), 64, false},
	{"bool", typeOf[bool](), 1, false},
}

func (k *chk) overflow(sub int) {
	c, r := k.c, k.r
	ik := intKinds[r.Intn(len(intKinds))]
	one := big.NewInt(1)
	var lo, hi *big.Int // inclusive range of the type
	if ik.signed {
		hi = new(big.Int).Sub(new(big.Int).Lsh(one, uint(ik.bits-1)), one)
		lo = new(big.Int).Neg(new(big.Int).Lsh(one, uint(ik.bits-1)))
	} else {
		hi = new(big.Int).Sub(new(big.Int).Lsh(one, uint(ik.bits)), one)
		lo = new(big.Int)
	}
	var num []byte // the integer's byte string
	canonical := false
	switch r.Intn(6) {
	case 0, 1:
		// around the type's limits
		x := new(big.Int)
		switch r.Intn(4) {
		case 0:
			x.Add(hi, big.NewInt(int64(r.Intn(3)-1)))
		case 1:
			x.Add(lo, big.NewInt(int64(r.Intn(3)-1)))
		case 2:
			x.Lsh(one, uint(8*(1+r.Intn(9))-r.Intn(2)))
			x.Add(x, big.NewInt(int64(r.Intn(3)-1)))
			if r.Intn(2) == 0 {
				x.Neg(x)
			}
		default:
			x.Set(gen.BigInt(r, 80))
		}
		num = minimalTwos(x)
		canonical = true
	case 2:
		// sign-extended (non-minimal) form of a small number
		x := gen.BigInt(r, ik.bits+8)
		num = minimalTwos(x)
		pad := byte(0)
		if x.Sign() < 0 {
			pad = 0xff
		}
		for n := 1 + r.Intn(9); n > 0; n-- {
			num = append([]byte{pad}, num...)
		}
	case 3:
		num = gen.Bytes(r, r.Intn(11))
	case 4:
		// exactly one byte longer than the width
		num = gen.Bytes(r, ik.bits/8+1)
		if ik.bits < 8 {
			num = gen.Bytes(r, 2)
		}
	default:
		num = gen.Bytes(r, 1+r.Intn(9))
		num[0] = gen.Pick(r, byte(0), byte(0x7f), byte(0x80), byte(0xff), byte(1))
	}
	item := wString(num)
	// target shape: plain, struct field, slice element, map value
	var target reflect.Type
	var in []byte
	var get func(v reflect.Value) reflect.Value
	shape := r.Intn(4)
	if shape == 2 && ik.t.Kind() == reflect.Uint8 {
		shape = 0 // []uint8 is a byte string, not a list of numbers
	}
	switch shape {
	case 0:
		target, in, get = ik.t, item, func(v reflect.Value) reflect.Value { return v }
	case 1:
		target = reflect.StructOf([]reflect.StructField{{Name: "F", Type: ik.t}, {Name: "G", Type: typeOf[string]()}})
		in = wList(append(append([]byte(nil), item...), 0x80))
		get = func(v reflect.Value) reflect.Value { return v.Field(0) }
	case 2:
		target = reflect.SliceOf(ik.t)
		in = wList(item)
		get = func(v reflect.Value) reflect.Value { return v.Index(0) }
	default:
		target = reflect.MapOf(typeOf[string](), ik.t)
		in = wList(append([]byte{0x61}, item...))
		get = func(v reflect.Value) reflect.Value { return v.MapIndex(reflect.ValueOf("a")) }
	}
	c.Eval(1)
	c.Note("overflow sub=%d kind=%s target=%s in=%x", sub, ik.name, target.String(), in)
	sv := twos(num)
	uv := new(big.Int).SetBytes(num)
	fitsS := sv.Cmp(lo) >= 0 && sv.Cmp(hi) <= 0
	v, _, err, pan := decodeInto(target, in)
	wit := func() map[string]interface{} {
		return map[string]interface{}{"kind": ik.name, "target": target.String(), "input": hx(in), "integer_bytes": hx(num), "number": sv.String(), "range": lo.String() + ".." + hi.String()}
	}
	if pan != nil {
		c.Violation("decode.panic."+panicKey(pan), wit())
		return
	}
	if err != nil {
		if !fitsS {
			c.Count("overflow_rejected", 1)
		}
		if fitsS && canonical {
			w := wit()
			w["err"] = err.Error()
			c.Violation("int.rejects-in-range-minimal."+ik.name, w)
		}
		return
	}
	f := get(v)
	got := new(big.Int)
	switch f.Kind() {
	case reflect.Bool:
		if f.Bool() {
			got.SetInt64(1)
		}
	case reflect.Int, reflect.Int8, reflect.Int16, reflect.Int32, reflect.Int64:
		got.SetInt64(f.Int())
	default:
		got.SetUint64(f.Uint())
	}
	ok := got.Cmp(sv) == 0
	if !ik.signed && got.Cmp(uv) == 0 {
		ok = true // the plain unsigned reading of the same bytes is no overflow either
	}
	if !ok {
		w := wit()
		w["decoded"] = got.String()
		c.Violation("int.overflow-accepted."+ik.name, w)
		return
	}
	if fitsS {
		c.Count("int_in_range_accepted", 1)
	}
}

// ---- typed "any" trees ----

func eqAny(a, b interface{}) bool {
	switch x := a.(type) {
	case nil:
		return b == nil
	case string:
		y, ok := b.(string)
		return ok && x == y
	case bool:
		y, ok := b.(bool)
		return ok && x == y
	case []byte:
		y, ok := b.([]byte)
		return ok && bytes.Equal(x, y) && (x == nil) == (y == nil)
	case *common.HexInt:
		y, ok := b.(*common.HexInt)
		return ok && x.Cmp(&y.Int) == 0
	case *common.Address:
		y, ok := b.(*common.Address)
		return ok && x.Equal(y)
	case []interface{}:
		y, ok := b.([]interface{})
		if !ok || len(x) != len(y) {
			return false
		}
		for i := range x {
			if !eqAny(x[i], y[i]) {
				return false
			}
		}
		return true
	case map[string]interface{}:
		y, ok := b.(map[string]interface{})
		if !ok || len(x) != len(y) {
			return false
		}
		for kk, xv := range x {
			yv, ok := y[kk]
			if !ok || !eqAny(xv, yv) {
				return false
			}
		}
		return true
	}
	return false
}

func (k *chk) anyTree(sub int) {
	c, r := k.c, k.r
	c.Eval(1)
	tree := genAny(r, 0)
	c.Note("any sub=%d", sub)
	enc, err := common.MarshalAny(codec.BC, tree)
	if err != nil {
		c.Violation("any.encode-error", map[string]interface{}{"tree": fmt.Sprintf("%#v", tree), "err": err.Error()})
		return
	}
	enc2, _ := common.MarshalAny(codec.BC, tree)
	if !bytes.Equal(enc, enc2) {
		c.Violation("any.encode-not-deterministic", map[string]interface{}{"first": hx(enc), "second": hx(enc2)})
	}
	back, err, pan := unmarshalAny(enc)
	if pan != nil {
		c.Violation("unmarshalany.panic."+panicKey(pan), map[string]interface{}{"input": hx(enc), "panic": fmt.Sprint(pan)})
		return
	}
	if err != nil {
		c.Violation("any.decode-error", map[string]interface{}{"encoding": hx(enc), "err": err.Error()})
		return
	}
	if !eqAny(tree, back) {
		c.Violation("any.roundtrip-differs", map[string]interface{}{"encoding": hx(enc), "tree": fmt.Sprintf("%#v", tree), "back": fmt.Sprintf("%#v", back)})
		return
	}
	c.Count("any_roundtrips", 1)
	if len(enc) >= 3 {
		c.NonTrivial("any" + string(enc))
	}
	// hostile variants of a typed tree
	for n := 0; n < 6 && len(enc) > 0; n++ {
		m := append([]byte(nil), enc...)
		i := r.Intn(len(m))
		switch r.Intn(4) {
		case 0:
			m[i] ^= 1 << uint(r.Intn(8))
		case 1:
			m = append(m[:i], append([]byte{0xf8, 0x00}, m[i:]...)...)
		case 2:
			// replace an item start by the null sequence, keeping the length
			if i+2 <= len(m) {
				m[i], m[i+1] = 0xf8, 0x00
			}
		default:
			m = m[:i]
		}
		c.Note("any-hostile sub=%d in=%x", sub, m)
		c.Count("any_hostile", 1)
		if _, _, pan := unmarshalAny(m); pan != nil {
			c.Violation("unmarshalany.panic."+panicKey(pan), map[string]interface{}{"input": hx(m), "panic": fmt.Sprint(pan), "derived_from": hx(enc)})
		}
	}
}

func run(c *ev.Ctx) {
	log.GlobalLogger().SetLevel(log.FatalLevel)
	c.Cases(func(ci int, r *rand.Rand) {
		k := &chk{c: c, r: r}
		for i := 0; i < nRoundTrip && !c.Stopped(); i++ {
			k.roundTrip(i)
		}
		deep := 0
		if ci%8 == 0 {
			deep = 1
		}
		for i := 0; i < nHostile && !c.Stopped(); i++ {
			k.hostile(i, &deep)
		}
		for i := 0; i < nOverflow && !c.Stopped(); i++ {
			k.overflow(i)
		}
		for i := 0; i < nAny && !c.Stopped(); i++ {
			k.anyTree(i)
		}
		// every 20th case of a batch: the shared codec used by several goroutines at once
		if (ci/c.NBatches)%20 == 0 && !c.Stopped() {
			k.concurrent()
		}
	})
}
