// Package c33: flooded messages reach the application at most once and only
// from authorized origins (PeerToPeer.onPacket + PacketPool).
package c33

import (
	"bytes"
	"encoding/binary"
	"encoding/hex"
	"fmt"
	"math/rand"
	"sort"
	"sync"

	"github.com/icon-project/goloop/module"
	"github.com/icon-project/goloop/network"

	"verif/lib/ev"
	"verif/lib/netgrp"
)

func init() {
	ev.Register(&ev.Prop{
		ID:    "C33",
		Level: "exploration",
		Cases: func(t string) int {
			if t == ev.Thorough {
				return 4800
			}
			return 160
		},
		Batches: func(t string) int { return 16 },
		Rule:    "each case = one real PeerToPeer with 6 connected peers (roles none/seed/root/seed+root all present, connection types drawn from all 7 incl. one undetermined) and a recording application callback; phase A (sequential, synchronous observation): every (dest in {any,seed,root,peer,other} x ttl in {0,1,2,255} x src in {delivering peer, another peer, unknown id, own id} x delivering peer) combination as a fresh packet parsed by the real PacketReader, followed by 0-3 relayed copies through other peers (different extension bytes, same hash); phase B (concurrent): 200 distinct packets, each relayed by 1-6 peers, written in PRNG order into the 6 peers' connections and consumed by the peers' real receive routines (one goroutine per peer, race detector on); phase C (1 case in 4): 600-11000 distinct flooded packets first (bucket rotation and ring wrap of the 20x500 pool), then duplicates of packets at most 1900 distinct packets old. phase E (every case): a real transport + NetworkManager on loopback TCP (node role validator or seed; validator list installed with SetRole before/between/after connections, seed list empty in 3 of 4 cases) and 7 scripted peers that authenticate, join, claim the validator bit in QueryReq (members and non-members of the installed list; one removed by a later SetRole), request a connection type and originate a broadcast: delivery to a registered Reactor is judged against the INSTALLED validator set. Non-trivial = distinct scenario (phase, dest, ttl, ordered list of (peer role, connection type, src kind) of the copies) that has >=2 copies through different peers or an unauthorized copy.",
		MinNonTrivial: func(t string) int {
			if t == ev.Thorough {
				return 500000
			}
			return 30000
		},
		Required: []string{"copies_sequential", "copies_concurrent", "flooded_delivered_once", "flooded_duplicates_suppressed", "onehop_foreign_src_dropped",
			"broadcast_from_non_validator_dropped", "first_authorized_delivered", "authorized_after_unauthorized_delivered", "window_duplicates_suppressed",
			"window_bucket_rotations", "concurrent_same_hash_races",
			"query_sessions", "query_member_broadcast_delivered", "query_nonmember_broadcast_dropped", "query_nonmember_claimed-after-install",
			"query_nonmember_claimed-before-install", "query_nonmember_removed-by-update", "query_nonmember_claimed-after-update"},
		Assumptions: []string{
			"duplicates arrive at most 1900 distinct flooded packets after the first copy (the implementation's 20x500 ring keeps at least the last 9500)",
			"64-bit FNV packet hashes of the distinct generated packets do not collide",
			"copies with an undetermined connection type, the node's own id as source, or a protocol the peer did not register are outside the statement: any outcome is allowed for them (they still count for at-most-once)",
			"phase E needs loopback TCP (listen on 127.0.0.1:0); without it the run is inconclusive (required counters query_*)",
			"when a validator list is installed, 'holding the validator role' means membership in that list (a claimed role bit is not enough); with no list installed claims are trusted by design and not judged",
			"'delivered' = the callback registered for the packet's protocol was invoked; the sequential phase attributes an invocation to the copy whose onPacket call was running",
		},
		TimeoutSec: func(t string) int {
			if t == ev.Thorough {
				return 6000
			}
			return 600
		},
		Run: run,
	})
}

var (
	protoA     = module.ProtoConsensus   // registered with a callback
	protoB     = module.ProtoTransaction // registered with a callback
	protoNoCb  = module.ProtoFastSync    // peers support it, node has no callback
	protoNoReg = module.ProtoStateSync   // peers do not support it
)

const (
	srcPeer    = 0 // the delivering peer
	srcOther   = 1 // another connected peer
	srcUnknown = 2 // an id that is not connected
	srcSelf    = 3 // the node itself
)

var srcName = []string{"peer", "other-peer", "unknown", "self"}

type peerInfo struct {
	idx      int
	id       []byte
	role     network.PeerRoleFlag
	connType network.PeerConnectionType
	p        *network.Peer
	harness  *netgrp.BufConn // harness end of the peer's connection
}

func (p *peerInfo) hasRoot() bool { return p.role&network.VerifRoleRoot == network.VerifRoleRoot }

// pktSpec is one distinct packet.
type pktSpec struct {
	serial  uint64
	proto   module.ProtocolInfo
	dest    byte
	ttl     byte
	srcKind int
	srcOf   int // for srcPeer/srcOther: index of the peer whose id is the source
	src     []byte
	payload []byte
	hash    uint64
}

func (k *pktSpec) oneHop() bool    { return k.ttl != 0 || k.dest == network.VerifDestPeer }
func (k *pktSpec) broadcast() bool { return k.dest == network.VerifDestAny && k.ttl == 0 }

type verdict int

const (
	authorized verdict = iota
	unauthorized
	dontCare
)

// judge is the statement's table for one copy of packet k arriving through peer p.
func judge(k *pktSpec, p *peerInfo, self []byte) (verdict, string) {
	srcIsPeer := bytes.Equal(k.src, p.id)
	// outside the statement
	if p.connType == network.VerifConnTypeNone {
		return dontCare, "undetermined-connection-type"
	}
	if bytes.Equal(k.src, self) {
		return dontCare, "own-id-as-source"
	}
	if k.proto == protoNoReg || k.proto == protoNoCb {
		return dontCare, "protocol-not-registered"
	}
	if k.oneHop() && !srcIsPeer {
		return unauthorized, "one-hop-foreign-source"
	}
	if k.broadcast() && srcIsPeer && !p.hasRoot() {
		return unauthorized, "broadcast-from-non-validator"
	}
	return authorized, ""
}

type delivery struct {
	serial uint64
	hash   uint64
	peer   int // index of delivering peer
	seq    int
}

type world struct {
	c     *ev.Ctx
	r     *rand.Rand
	self  []byte
	p2p   *network.PeerToPeer
	peers []*peerInfo
	byID  map[string]int
	pr    *network.PacketReader

	mu         sync.Mutex
	deliveries []delivery
	serialNext uint64
}

func (w *world) onDeliver(pkt *network.Packet, p *network.Peer) {
	f := network.VerifPacketFields(pkt)
	var serial uint64
	if len(f.Payload) >= 8 {
		serial = binary.BigEndian.Uint64(f.Payload)
	}
	idx := -1
	if id := p.ID(); id != nil {
		if i, ok := w.byID[string(id.Bytes())]; ok {
			idx = i
		}
	}
	w.mu.Lock()
	w.deliveries = append(w.deliveries, delivery{serial, f.Hash, idx, len(w.deliveries)})
	w.mu.Unlock()
}

func (w *world) nDeliveries() int {
	w.mu.Lock()
	defer w.mu.Unlock()
	return len(w.deliveries)
}

func newWorld(c *ev.Ctx, r *rand.Rand) *world {
	l := netgrp.QuietLogger()
	w := &world{c: c, r: r, byID: map[string]int{}}
	w.self = make([]byte, 20)
	r.Read(w.self)
	w.p2p = network.VerifNewP2P("c33", network.NewPeerID(w.self), l)
	w.p2p.VerifSetCb(protoA, w.onDeliver)
	w.p2p.VerifSetCb(protoB, w.onDeliver)
	roles := []network.PeerRoleFlag{network.VerifRoleNone, network.VerifRoleSeed, network.VerifRoleRoot, network.VerifRoleRoot | network.VerifRoleSeed,
		network.PeerRoleFlag(r.Intn(4)), network.PeerRoleFlag(r.Intn(4))}
	r.Shuffle(len(roles), func(i, j int) { roles[i], roles[j] = roles[j], roles[i] })
	// connection types: one undetermined, the rest drawn from the 6 determined ones
	cts := make([]network.PeerConnectionType, 6)
	for i := range cts {
		cts[i] = network.PeerConnectionType(1 + r.Intn(int(network.VerifConnTypeReserved)-1))
	}
	cts[r.Intn(6)] = network.VerifConnTypeNone
	for i := 0; i < 6; i++ {
		pi := &peerInfo{idx: i, id: make([]byte, 20), role: roles[i], connType: cts[i]}
		r.Read(pi.id)
		peerEnd, harnessEnd := netgrp.BufPipe(r.Int63())
		pi.harness = harnessEnd
		pi.p = network.VerifNewPeer(peerEnd, network.NewPeerID(pi.id), pi.role, pi.connType,
			[]module.ProtocolInfo{protoA, protoB, protoNoCb}, l)
		w.peers = append(w.peers, pi)
		w.byID[string(pi.id)] = i
	}
	return w
}

func (w *world) close() {
	for _, p := range w.peers {
		p.p.Close("verif: case done")
		p.harness.Close()
	}
}

// newPacket makes a distinct packet; via is the peer the first copy goes through.
func (w *world) newPacket(proto module.ProtocolInfo, dest, ttl byte, srcKind int, via int) *pktSpec {
	w.serialNext++
	k := &pktSpec{serial: w.serialNext, proto: proto, dest: dest, ttl: ttl, srcKind: srcKind, srcOf: -1}
	switch srcKind {
	case srcPeer:
		k.src, k.srcOf = w.peers[via].id, via
	case srcOther:
		o := (via + 1 + w.r.Intn(5)) % 6
		k.src, k.srcOf = w.peers[o].id, o
	case srcUnknown:
		k.src = make([]byte, 20)
		w.r.Read(k.src)
	default:
		k.src = w.self
	}
	k.payload = make([]byte, 8+w.r.Intn(24))
	w.r.Read(k.payload)
	binary.BigEndian.PutUint64(k.payload, k.serial)
	wp := netgrp.WirePacket{Protocol: proto.Uint16(), SubProtocol: w.subOf(k), Src: k.src, Dest: dest, TTL: ttl, Payload: k.payload}
	k.hash = wp.Hash()
	return k
}

// wireCopy serializes one relayed copy (own extension bytes; the hash does not cover them).
func (w *world) wireCopy(k *pktSpec, sub uint16, r *rand.Rand) []byte {
	wp := netgrp.WirePacket{Protocol: k.proto.Uint16(), SubProtocol: sub, Src: k.src, Dest: k.dest, TTL: k.ttl, Payload: k.payload}
	if r.Intn(2) == 0 {
		wp.ExtHint = byte(1 + r.Intn(5))
		wp.Ext = make([]byte, 4*(1+r.Intn(3)))
		r.Read(wp.Ext)
	}
	return wp.Bytes()
}

func (w *world) subOf(k *pktSpec) uint16 {
	// sub-protocol is part of the hashed header: keep it fixed per packet
	return uint16(k.serial % 4)
}

func (w *world) parse(b []byte) *network.Packet {
	if w.pr == nil {
		w.pr = network.NewPacketReader(bytes.NewReader(b))
	} else {
		w.pr.Reset(bytes.NewReader(b))
	}
	pkt, err := w.pr.ReadPacket()
	if err != nil {
		panic("harness: own serialization rejected by PacketReader: " + err.Error())
	}
	return pkt
}

type copyRec struct {
	peer      int
	v         verdict
	why       string
	delivered bool // sequential phase only
}

func (w *world) witness(k *pktSpec, copies []copyRec, extra map[string]interface{}) map[string]interface{} {
	cs := []map[string]interface{}{}
	for i, cp := range copies {
		p := w.peers[cp.peer]
		cs = append(cs, map[string]interface{}{"order": i, "peer": cp.peer, "peer_id": hex.EncodeToString(p.id), "peer_role": int(p.role), "peer_conn_type": int(p.connType),
			"statement_says": []string{"authorized", "unauthorized", "outside-statement"}[cp.v], "why": cp.why, "delivered": cp.delivered})
	}
	m := map[string]interface{}{"self": hex.EncodeToString(w.self), "protocol": k.proto.Uint16(), "dest": k.dest, "ttl": k.ttl, "src_kind": srcName[k.srcKind],
		"src": hex.EncodeToString(k.src), "payload": hex.EncodeToString(k.payload), "hash": fmt.Sprintf("%#x", k.hash), "one_hop": k.oneHop(), "copies": cs}
	for kk, v := range extra {
		m[kk] = v
	}
	return m
}

func scenarioKey(phase string, w *world, k *pktSpec, copies []copyRec) string {
	s := fmt.Sprintf("%s/%d/%d/%d", phase, k.dest, k.ttl, k.proto)
	for _, cp := range copies {
		p := w.peers[cp.peer]
		sk := srcUnknown
		switch {
		case bytes.Equal(k.src, p.id):
			sk = srcPeer
		case k.srcKind == srcSelf:
			sk = srcSelf
		case k.srcOf >= 0:
			sk = srcOther
		}
		s += fmt.Sprintf("|%d,%d,%d", p.role, p.connType, sk)
	}
	return s
}

func run(c *ev.Ctx) {
	netgrp.QuietLogger()
	c.Cases(func(ci int, r *rand.Rand) {
		w := newWorld(c, r)
		defer w.close()
		roles := []int{}
		cts := []int{}
		for _, p := range w.peers {
			roles = append(roles, int(p.role))
			cts = append(cts, int(p.connType))
		}
		c.Note("self=%x roles=%v connTypes=%v", w.self, roles, cts)
		phaseA(w)
		if c.Stopped() {
			return
		}
		if (ci/16+ci)%4 == 1 {
			phaseC(w, ci/16+ci)
			if c.Stopped() {
				return
			}
		}
		phaseB(w)
		if !c.Stopped() {
			phaseD(w)
		}
		if !c.Stopped() {
			phaseE(w)
		}
	})
}

// ---------- phase A: exhaustive table, sequential ----------

func phaseA(w *world) {
	c, r := w.c, w.r
	dests := []byte{network.VerifDestAny, network.VerifDestSeed, network.VerifDestRoot, network.VerifDestPeer, byte(3 + r.Intn(250))}
	ttls := []byte{0, 1, 2, 255}
	type combo struct {
		dest, ttl byte
		srcKind   int
		via       int
	}
	var combos []combo
	for _, d := range dests {
		for _, t := range ttls {
			for sk := 0; sk < 4; sk++ {
				for via := 0; via < 6; via++ {
					combos = append(combos, combo{d, t, sk, via})
				}
			}
		}
	}
	r.Shuffle(len(combos), func(i, j int) { combos[i], combos[j] = combos[j], combos[i] })
	for _, cb := range combos {
		if c.Stopped() {
			return
		}
		proto := protoA
		if r.Intn(3) == 0 {
			proto = protoB
		}
		k := w.newPacket(proto, cb.dest, cb.ttl, cb.srcKind, cb.via)
		// the first copy through cb.via, then 0-3 more through other (or the same) peers
		order := []int{cb.via}
		for n := r.Intn(4); n > 0; n-- {
			if k.srcOf >= 0 && r.Intn(3) == 0 {
				order = append(order, k.srcOf) // the originator itself delivers a copy
			} else {
				order = append(order, r.Intn(6))
			}
		}
		runSequential(w, "A", k, order)
	}
}

// phaseD: protocols outside the callback table: no delivery may happen, nothing may panic
// (run last: the node closes such a peer).
func phaseD(w *world) {
	c, r := w.c, w.r
	for _, proto := range []module.ProtocolInfo{protoNoCb, protoNoReg} {
		via := r.Intn(6)
		k := w.newPacket(proto, network.VerifDestAny, 0, srcUnknown, via)
		before := w.nDeliveries()
		w.p2p.VerifOnPacket(w.parse(w.wireCopy(k, w.subOf(k), r)), w.peers[via].p)
		if w.nDeliveries() != before {
			c.Violation("unregistered-protocol.delivered", w.witness(k, []copyRec{{peer: via}}, nil))
		}
		c.Count("unregistered_protocol_not_delivered", 1)
	}
}

// runSequential feeds the copies of k one by one and checks every step against the table.
func runSequential(w *world, phase string, k *pktSpec, order []int) {
	c := w.c
	var copies []copyRec
	deliveredBefore := 0 // deliveries of this packet so far
	firstAuthorizedSeen := false
	sawUnauthorizedBefore := false
	for _, pi := range order {
		p := w.peers[pi]
		v, why := judge(k, p, w.self)
		pkt := w.parse(w.wireCopy(k, w.subOf(k), w.r))
		c.Eval(1)
		before := w.nDeliveries()
		w.p2p.VerifOnPacket(pkt, p.p)
		after := w.nDeliveries()
		got := after - before
		cr := copyRec{peer: pi, v: v, why: why, delivered: got > 0}
		copies = append(copies, cr)
		c.Count("copies_sequential", 1)
		if got > 1 {
			c.Violation("delivered-more-than-once-per-copy", w.witness(k, copies, nil))
			return
		}
		if got == 1 {
			w.mu.Lock()
			d := w.deliveries[len(w.deliveries)-1]
			w.mu.Unlock()
			if d.serial != k.serial || d.peer != pi {
				c.Violation("delivered-wrong-packet-or-peer", w.witness(k, copies, map[string]interface{}{"delivered_serial": d.serial, "delivered_peer": d.peer}))
				return
			}
		}
		switch v {
		case unauthorized:
			if got > 0 {
				c.Violation("unauthorized-delivered."+why, w.witness(k, copies, nil))
				return
			}
			if why == "one-hop-foreign-source" {
				c.Count("onehop_foreign_src_dropped", 1)
			} else {
				c.Count("broadcast_from_non_validator_dropped", 1)
			}
			sawUnauthorizedBefore = true
		case authorized:
			if !k.oneHop() && deliveredBefore > 0 {
				if got > 0 {
					c.Violation("flooded-delivered-twice", w.witness(k, copies, nil))
					return
				}
				c.Count("flooded_duplicates_suppressed", 1)
			} else if !firstAuthorizedSeen || k.oneHop() {
				// first authorized copy (flooded: nothing delivered yet), or any authorized one-hop copy
				if !firstAuthorizedSeen && got == 0 {
					key := "authorized-not-delivered"
					if k.oneHop() {
						key += ".one-hop"
					} else {
						key += ".flooded"
					}
					if sawUnauthorizedBefore {
						key += ".after-unauthorized-copy"
					}
					c.Violation(key, w.witness(k, copies, nil))
					return
				}
				if !firstAuthorizedSeen {
					c.Count("first_authorized_delivered", 1)
					if sawUnauthorizedBefore {
						c.Count("authorized_after_unauthorized_delivered", 1)
					}
					if !k.oneHop() {
						c.Count("flooded_delivered_once", 1)
					}
				}
			}
			firstAuthorizedSeen = true
		default:
			c.Count("outside_statement_"+why, 1)
			if !k.oneHop() && deliveredBefore > 0 && got > 0 {
				c.Violation("flooded-delivered-twice", w.witness(k, copies, nil))
				return
			}
		}
		deliveredBefore += got
	}
	distinctPeers := map[int]bool{}
	hasUnauth := false
	for _, cp := range copies {
		distinctPeers[cp.peer] = true
		if cp.v == unauthorized {
			hasUnauth = true
		}
	}
	if len(distinctPeers) >= 2 || hasUnauth {
		c.NonTrivial(scenarioKey(phase, w, k, copies))
	}
	if c.WantSample() && len(copies) >= 3 && hasUnauth {
		c.Sample(w.witness(k, copies, map[string]interface{}{"phase": phase}))
	}
}

// ---------- phase C: dedup ring beyond one bucket / wrap-around ----------

func phaseC(w *world, ci int) {
	c, r := w.c, w.r
	n := []int{600, 1300, 2600}[r.Intn(3)]
	if ci%16 == 1 || !c.IsQuick() && ci%8 == 1 {
		n = 10100 + r.Intn(900) // current bucket index wraps to 0
	}
	// relaying peers with a determined connection type
	var ok []int
	for i, p := range w.peers {
		if p.connType != network.VerifConnTypeNone {
			ok = append(ok, i)
		}
	}
	pks := make([]*pktSpec, 0, n)
	for i := 0; i < n; i++ {
		via := ok[r.Intn(len(ok))]
		k := w.newPacket(protoA, []byte{network.VerifDestAny, network.VerifDestRoot, network.VerifDestSeed}[r.Intn(3)], 0, srcUnknown, via)
		before := w.nDeliveries()
		w.p2p.VerifOnPacket(w.parse(w.wireCopy(k, w.subOf(k), r)), w.peers[via].p)
		c.Eval(1)
		if w.nDeliveries()-before != 1 {
			c.Violation("window.first-copy-not-delivered", w.witness(k, []copyRec{{peer: via}}, map[string]interface{}{"distinct_packets_before": i}))
			return
		}
		pks = append(pks, k)
		// every now and then a duplicate of a recent packet, at every distance up to 1900
		if i%3 == 0 && i > 0 {
			back := 1 + r.Intn(1900)
			if r.Intn(4) == 0 {
				back = []int{1, 499, 500, 501, 999, 1000, 1001, 1499, 1500, 1501, 1900}[r.Intn(11)]
			}
			if back > i {
				back = 1 + r.Intn(i)
			}
			old := pks[i-back]
			via2 := ok[r.Intn(len(ok))]
			before := w.nDeliveries()
			w.p2p.VerifOnPacket(w.parse(w.wireCopy(old, w.subOf(old), r)), w.peers[via2].p)
			c.Eval(1)
			if w.nDeliveries() != before {
				c.Violation("window.duplicate-delivered", w.witness(old, []copyRec{{peer: via2}}, map[string]interface{}{"distinct_packets_since_first_copy": back, "distinct_packets_total": i + 1}))
				return
			}
			c.Count("window_duplicates_suppressed", 1)
			c.NonTrivial(fmt.Sprintf("C/%d/%d", (i+1)/500, back/100))
		}
	}
	c.Count("window_bucket_rotations", n/500)
	if n > 10000 {
		c.Count("window_ring_wraps", 1)
	}
}

// ---------- phase B: concurrent relays through the peers' real receive routines ----------

func phaseB(w *world) {
	c, r := w.c, w.r
	const nPackets = 200
	type sched struct {
		k      *pktSpec
		relays []int
	}
	var all []sched
	perPeer := make([][]byte, 6) // wire bytes per peer in PRNG order
	type item struct {
		peer int
		k    *pktSpec
	}
	var items []item
	dests := []byte{network.VerifDestAny, network.VerifDestAny, network.VerifDestSeed, network.VerifDestRoot, network.VerifDestPeer}
	for i := 0; i < nPackets; i++ {
		via := r.Intn(6)
		ttl := byte(0)
		if r.Intn(5) == 0 {
			ttl = []byte{1, 2, 255}[r.Intn(3)]
		}
		sk := []int{srcPeer, srcOther, srcOther, srcUnknown, srcUnknown, srcSelf}[r.Intn(6)]
		proto := protoA
		if r.Intn(3) == 0 {
			proto = protoB
		}
		k := w.newPacket(proto, dests[r.Intn(len(dests))], ttl, sk, via)
		nrel := 1 + r.Intn(6)
		relays := []int{via}
		for len(relays) < nrel {
			relays = append(relays, r.Intn(6))
		}
		if k.srcOf >= 0 && r.Intn(2) == 0 {
			relays = append(relays, k.srcOf)
		}
		all = append(all, sched{k, relays})
		for _, p := range relays {
			items = append(items, item{p, k})
		}
	}
	r.Shuffle(len(items), func(i, j int) { items[i], items[j] = items[j], items[i] })
	for _, it := range items {
		perPeer[it.peer] = append(perPeer[it.peer], w.wireCopy(it.k, w.subOf(it.k), r)...)
	}
	startDeliveries := w.nDeliveries()

	// start the real receive routines and feed all six connections at once
	for _, p := range w.peers {
		w.p2p.VerifStartReceive(p.p)
	}
	var wg sync.WaitGroup
	for i, p := range w.peers {
		wg.Add(1)
		go func(i int, p *peerInfo) {
			defer wg.Done()
			data := perPeer[i]
			rr := rand.New(rand.NewSource(int64(len(data))*7919 + int64(i)))
			for len(data) > 0 {
				n := 1 + rr.Intn(300)
				if n > len(data) {
					n = len(data)
				}
				p.harness.Write(data[:n])
				data = data[n:]
			}
			p.harness.CloseWrite()
			// EOF is read only after every earlier packet was handled by this peer's routine
			p.p.WaitClose()
		}(i, p)
	}
	wg.Wait()

	w.mu.Lock()
	dl := append([]delivery(nil), w.deliveries[startDeliveries:]...)
	w.mu.Unlock()
	bySerial := map[uint64][]delivery{}
	order := make([]byte, 0, len(dl))
	for _, d := range dl {
		bySerial[d.serial] = append(bySerial[d.serial], d)
		order = append(order, byte('0'+d.peer))
	}
	c.Distinct("interleavings", string(order))
	c.Count("copies_concurrent", len(items))
	known := map[uint64]bool{}
	for _, s := range all {
		known[s.k.serial] = true
	}
	for serial := range bySerial {
		if !known[serial] {
			c.Violation("concurrent.delivered-unknown-packet", map[string]interface{}{"serial": serial})
			return
		}
	}
	for _, s := range all {
		if c.Stopped() {
			return
		}
		k := s.k
		c.Eval(1)
		var copies []copyRec
		nAuth, nUnauth, nDont := 0, 0, 0
		verdictOf := map[int]verdict{}
		for _, pi := range s.relays {
			v, why := judge(k, w.peers[pi], w.self)
			copies = append(copies, copyRec{peer: pi, v: v, why: why})
			verdictOf[pi] = v
			switch v {
			case authorized:
				nAuth++
			case unauthorized:
				nUnauth++
			default:
				nDont++
			}
		}
		ds := bySerial[k.serial]
		dpeers := []int{}
		for _, d := range ds {
			dpeers = append(dpeers, d.peer)
		}
		sort.Ints(dpeers)
		extra := map[string]interface{}{"phase": "B", "delivered_through_peers": dpeers}
		for i := range copies {
			for _, d := range ds {
				if d.peer == copies[i].peer {
					copies[i].delivered = true
				}
			}
		}
		for _, d := range ds {
			v, seen := verdictOf[d.peer]
			if !seen {
				c.Violation("concurrent.delivered-through-peer-that-never-relayed", w.witness(k, copies, extra))
				return
			}
			if v == unauthorized {
				why := ""
				for _, cp := range copies {
					if cp.peer == d.peer {
						why = cp.why
					}
				}
				c.Violation("unauthorized-delivered."+why, w.witness(k, copies, extra))
				return
			}
			if d.hash != k.hash {
				c.Violation("concurrent.hash-differs-from-wire", w.witness(k, copies, extra))
				return
			}
		}
		if !k.oneHop() {
			if len(ds) > 1 {
				c.Violation("flooded-delivered-twice", w.witness(k, copies, extra))
				return
			}
			if nAuth > 0 && len(ds) == 0 {
				key := "authorized-not-delivered.flooded"
				if nUnauth > 0 {
					key += ".after-unauthorized-copy"
				}
				c.Violation(key, w.witness(k, copies, extra))
				return
			}
			if len(ds) == 1 {
				c.Count("flooded_delivered_once", 1)
				if nAuth+nDont > 1 {
					c.Count("flooded_duplicates_suppressed", nAuth+nDont-1)
				}
				distinct := map[int]bool{}
				for _, cp := range copies {
					if cp.v != unauthorized {
						distinct[cp.peer] = true
					}
				}
				if len(distinct) >= 2 {
					c.Count("concurrent_same_hash_races", 1)
				}
				if nUnauth > 0 && nAuth > 0 {
					c.Count("authorized_after_unauthorized_delivered", 1)
				}
			}
		} else {
			// one-hop: every authorized copy's peer must show up at least once
			for _, cp := range copies {
				if cp.v == authorized && !cp.delivered {
					c.Violation("authorized-not-delivered.one-hop", w.witness(k, copies, extra))
					return
				}
			}
			if nAuth > 0 {
				c.Count("first_authorized_delivered", 1)
			}
		}
		for _, cp := range copies {
			if cp.v == unauthorized {
				if cp.why == "one-hop-foreign-source" {
					c.Count("onehop_foreign_src_dropped", 1)
				} else {
					c.Count("broadcast_from_non_validator_dropped", 1)
				}
			}
		}
		dp := map[int]bool{}
		for _, cp := range copies {
			dp[cp.peer] = true
		}
		if len(dp) >= 2 || nUnauth > 0 {
			cs := append([]copyRec(nil), copies...)
			sort.Slice(cs, func(i, j int) bool { return cs[i].peer < cs[j].peer })
			c.NonTrivial(scenarioKey("B", w, k, cs))
		}
	}
}
