package c33

// Phase E: "holding the validator role" established through the REAL path.
// A real transport + network manager listens on loopback TCP; scripted peers
// authenticate, join the channel, claim role bits in a QueryReq, request a
// connection type and then originate broadcasts. The validator/seed sets are
// installed with NetworkManager.SetRole before, between and after the
// connections. The accept/drop table is evaluated against the INSTALLED
// validator set, not against the role field the node keeps for the peer.

import (
	"bytes"
	"context"
	"encoding/binary"
	"encoding/hex"
	"fmt"
	"math/rand"
	"net"
	"sync"
	"time"

	"github.com/icon-project/goloop/common/codec"
	"github.com/icon-project/goloop/common/crypto"
	"github.com/icon-project/goloop/common/log"
	"github.com/icon-project/goloop/module"
	"github.com/icon-project/goloop/network"
	"github.com/icon-project/goloop/server/metric"

	"verif/lib/netgrp"
)

type chainStub struct {
	module.Chain
	l log.Logger
}

func (c *chainStub) NetID() int                     { return 0xc33 }
func (c *chainStub) CID() int                       { return 0xc33 }
func (c *chainStub) NID() int                       { return 0xc33 }
func (c *chainStub) Logger() log.Logger             { return c.l }
func (c *chainStub) MetricContext() context.Context { return metric.DefaultMetricContext() }
func (c *chainStub) ChildrenLimit() int             { return 10 }
func (c *chainStub) NephewsLimit() int              { return 10 }

type qDelivery struct {
	serial uint64
	from   []byte
}

type qReactor struct {
	mu  sync.Mutex
	got []qDelivery
	ch  chan uint64
}

func (q *qReactor) OnReceive(pi module.ProtocolInfo, b []byte, id module.PeerID) (bool, error) {
	var serial uint64
	if len(b) >= 8 {
		serial = binary.BigEndian.Uint64(b)
	}
	q.mu.Lock()
	q.got = append(q.got, qDelivery{serial, append([]byte(nil), id.Bytes()...)})
	q.mu.Unlock()
	q.ch <- serial
	return false, nil
}
func (q *qReactor) OnJoin(id module.PeerID)  {}
func (q *qReactor) OnLeave(id module.PeerID) {}

func (q *qReactor) delivered(serial uint64) bool {
	q.mu.Lock()
	defer q.mu.Unlock()
	for _, d := range q.got {
		if d.serial == serial {
			return true
		}
	}
	return false
}

// speer is a scripted remote peer.
type speer struct {
	name     string
	w        module.Wallet
	id       []byte
	conn     net.Conn
	pr       *network.PacketReader
	pw       *network.PacketWriter
	claim    network.PeerRoleFlag
	reqType  network.PeerConnectionType
	granted  network.PeerConnectionType
	closed   bool // the node closed the connection
	how      string
	queryMsg string
}

const (
	subChanJoinReq  = 0x0500
	subChanJoinResp = 0x0600
	subQueryReq     = 0x0700
	subQueryResp    = 0x0800
	subConnReq      = 0x0900
	subConnResp     = 0x0A00
)

func (s *speer) send(proto, sub uint16, dest, ttl byte, payload []byte) error {
	return s.pw.WritePacket(network.VerifNewPacket(proto, sub, s.id, dest, ttl, payload, 0, nil))
}

func (s *speer) sendMsg(proto, sub uint16, v interface{}) error {
	b, err := codec.MP.MarshalToBytes(v)
	if err != nil {
		return err
	}
	return s.send(proto, sub, network.VerifDestPeer, 1, b)
}

// recvMsg reads packets until one with the wanted sub-protocol of the control protocol arrives.
func (s *speer) recvMsg(sub uint16, v interface{}) error {
	for {
		pkt, err := s.pr.ReadPacket()
		if err != nil {
			return err
		}
		f := network.VerifPacketFields(pkt)
		if f.Protocol == 0 && f.SubProtocol == sub {
			_, err = codec.MP.UnmarshalFromBytes(f.Payload, v)
			return err
		}
	}
}

const qChannel = "c33" // hex of NetID 0xc33

// connect runs authentication, channel join, role query and connection request against the real node.
func connect(addr string, r *rand.Rand, name string, w module.Wallet, claim network.PeerRoleFlag, req network.PeerConnectionType, port int) (*speer, error) {
	conn, err := net.Dial("tcp4", addr)
	if err != nil {
		return nil, err
	}
	conn.SetDeadline(time.Now().Add(10 * time.Minute)) // watchdog only
	s := &speer{name: name, w: w, conn: conn, pr: network.NewPacketReader(conn), pw: network.NewPacketWriter(conn), claim: claim, reqType: req}
	s.id = w.Address().ID()
	sk := network.VerifNewSecureKey()
	if err := s.sendMsg(network.VerifProtoAuth.Uint16(), network.VerifProtoAuthSecureReq.Uint16(), &network.SecureRequest{Channel: qChannel,
		SecureSuites: []network.SecureSuite{network.SecureSuiteNone}, SecureAeadSuites: []network.SecureAeadSuite{network.SecureAeadSuiteChaCha20Poly1305},
		SecureParam: sk.PublicKey()}); err != nil {
		return s, fmt.Errorf("send SecureRequest: %v", err)
	}
	var sresp network.SecureResponse
	if err := s.recvMsg(network.VerifProtoAuthSecureResp.Uint16(), &sresp); err != nil {
		return s, fmt.Errorf("recv SecureResponse: %v", err)
	}
	if err := sk.Setup(network.SecureAeadSuiteNone, sresp.SecureParam, false, 2); err != nil {
		return s, err
	}
	sig, err := w.Sign(crypto.SHA3Sum256(sk.Extra()))
	if err != nil {
		return s, err
	}
	if err := s.sendMsg(network.VerifProtoAuth.Uint16(), network.VerifProtoAuthSignatureReq.Uint16(), &network.SignatureRequest{PublicKey: w.PublicKey(), Signature: sig}); err != nil {
		return s, fmt.Errorf("send SignatureRequest: %v", err)
	}
	var gresp network.SignatureResponse
	if err := s.recvMsg(network.VerifProtoAuthSignatureRsp.Uint16(), &gresp); err != nil {
		return s, fmt.Errorf("recv SignatureResponse: %v", err)
	}
	if gresp.Error != "" {
		return s, fmt.Errorf("SignatureResponse error %q", gresp.Error)
	}
	if err := s.sendMsg(0, subChanJoinReq, &network.JoinRequest{Channel: qChannel, Addr: network.NetAddress(fmt.Sprintf("127.0.0.1:%d", port)),
		Protocols: []module.ProtocolInfo{module.ProtoP2P, protoA}}); err != nil {
		return s, fmt.Errorf("send JoinRequest: %v", err)
	}
	var jresp network.JoinResponse
	if err := s.recvMsg(subChanJoinResp, &jresp); err != nil {
		return s, fmt.Errorf("recv JoinResponse: %v", err)
	}
	// from here on the node may legitimately close the connection (e.g. a validator refuses role-less peers)
	if err := s.query(); err != nil || s.closed {
		return s, err
	}
	if err := s.sendMsg(0, subConnReq, &network.P2PConnectionRequest{ConnType: req}); err != nil {
		s.closed = true
		return s, nil
	}
	var cresp network.P2PConnectionResponse
	if err := s.recvMsg(subConnResp, &cresp); err != nil {
		s.closed = true
		return s, nil
	}
	s.granted = cresp.ConnType
	return s, nil
}

// query sends the role claim and waits for the answer; it doubles as a barrier:
// the node's receive routine for this peer has handled every earlier packet.
func (s *speer) query() error {
	if err := s.sendMsg(0, subQueryReq, &network.QueryMessage{Role: s.claim}); err != nil {
		s.closed = true
		return nil
	}
	var qr network.QueryResultMessage
	if err := s.recvMsg(subQueryResp, &qr); err != nil {
		s.closed = true
		return nil
	}
	s.queryMsg = qr.Message
	return nil
}

func phaseE(w *world) {
	c, r := w.c, w.r
	l := netgrp.QuietLogger()
	nodeWallet, _ := netgrp.WalletFrom(r)
	nt := network.NewTransport("127.0.0.1:1", nodeWallet, l)
	if err := nt.SetListenAddress("127.0.0.1:0"); err != nil {
		c.Count("query_listen_unavailable", 1)
		return
	}
	if err := nt.Listen(); err != nil {
		c.Count("query_listen_unavailable", 1)
		return
	}
	addr := nt.GetListenAddress()
	nodeIsValidator := r.Intn(2) == 0
	nodeRole := module.RoleSeed
	if nodeIsValidator {
		nodeRole = module.RoleValidator
	}
	nm := network.NewManager(&chainStub{l: l}, nt, "", nodeRole)
	react := &qReactor{ch: make(chan uint64, 1024)}
	if _, err := nm.RegisterReactor("c33", protoA, react, []module.ProtocolInfo{0, 1, 2, 3}, 1, module.NotRegisteredProtocolPolicyNone); err != nil {
		c.Violation("query.harness.register-reactor", err.Error())
		nt.Close()
		return
	}
	if err := nm.Start(); err != nil {
		c.Violation("query.harness.start", err.Error())
		nt.Close()
		return
	}
	var peers []*speer
	defer func() {
		for _, p := range peers {
			if p != nil && p.conn != nil {
				p.conn.Close()
			}
		}
		// let the node notice the closed connections so that Term does not sleep on them
		for i := 0; i < 2000 && len(nm.GetPeers()) > 0; i++ {
			time.Sleep(time.Millisecond)
		}
		nm.Term()
		nt.Close()
	}()

	mk := func() module.Wallet { wl, _ := netgrp.WalletFrom(r); return wl }
	pid := func(wl module.Wallet) module.PeerID { return network.NewPeerIDFromAddress(wl.Address()) }
	wM, wA1, wA2, wB1, wB2, wB3, wS := mk(), mk(), mk(), mk(), mk(), mk(), mk()
	root := network.VerifRoleRoot
	claimOf := func() network.PeerRoleFlag { // always claims the validator bit, sometimes the seed bit too
		if r.Intn(3) == 0 {
			return root | network.VerifRoleSeed
		}
		return root
	}
	reqOf := func() network.PeerConnectionType { // friend(5) / parent(1) / uncle(3)
		return network.PeerConnectionType([]int{5, 5, 1, 3}[r.Intn(4)])
	}
	seedsInstalled := r.Intn(4) == 0
	c.Note("phaseE node_validator=%v seeds_installed=%v", nodeIsValidator, seedsInstalled)
	port := 20000 + r.Intn(20000)
	dial := func(name, how string, wl module.Wallet) *speer {
		port++
		claim, req := claimOf(), reqOf()
		if name == "M" {
			claim, req = root, network.PeerConnectionType(5) // the monitor asks for a friend connection
		}
		s, err := connect(addr, r, name, wl, claim, req, port)
		// The node's accept path starts the peer's receive routine before Authenticator.onPeer has armed its
		// wait-info; a dialer that is faster than that gets its handshake aborted (invalid message sequence).
		// That is outside C33: dial again.
		for try := 0; err != nil && try < 8; try++ {
			if s != nil && s.conn != nil {
				s.conn.Close()
			}
			c.Count("query_connect_retries", 1)
			s, err = connect(addr, r, name, wl, claim, req, port)
		}
		if s != nil {
			s.how = how
			peers = append(peers, s)
		}
		if err != nil {
			// the handshake itself is C32's subject; here it only means this phase could not be driven
			c.Count("query_connect_failed", 1)
			c.Notef("phase E: connect %s failed: %v", name, err)
			return nil
		}
		return s
	}

	// 1) before any list is installed claims are trusted (bootstrap)
	pB2 := dial("B2", "claimed-before-install", wB2)
	pA2 := dial("A2", "member-before-install", wA2)
	if c.Stopped() {
		return
	}
	// 2) install the validator list (and, rarely, a seed list)
	v1 := []module.PeerID{pid(wM), pid(wA1), pid(wA2), pid(wB3)}
	if nodeIsValidator {
		v1 = append(v1, pid(nodeWallet))
	}
	nm.SetRole(1, module.RoleValidator, v1...)
	if seedsInstalled {
		sl := []module.PeerID{pid(wS)}
		if !nodeIsValidator {
			sl = append(sl, pid(nodeWallet))
		}
		nm.SetRole(1, module.RoleSeed, sl...)
	}
	// 3) connections made while the list is installed
	pM := dial("M", "monitor", wM)
	pA1 := dial("A1", "member-after-install", wA1)
	pB1 := dial("B1", "claimed-after-install", wB1)
	pB3 := dial("B3", "member-until-update", wB3)
	if c.Stopped() {
		return
	}
	c.Count("query_sessions", 1)
	if pM == nil || pM.closed || pM.granted == network.VerifConnTypeNone {
		c.Count("query_monitor_unavailable", 1)
		return
	}
	installed := map[string]bool{}
	for _, id := range v1 {
		installed[string(id.Bytes())] = true
	}
	serial := uint64(1 << 40)
	// 4) every peer originates a broadcast; table against the installed set v1
	probe := func(list []*speer) {
		for _, p := range list {
			if p == nil || c.Stopped() {
				continue
			}
			c.Eval(1)
			member := installed[string(p.id)]
			serial++
			mySerial := serial
			sent := false
			if !p.closed {
				payload := make([]byte, 16)
				binary.BigEndian.PutUint64(payload, mySerial)
				r.Read(payload[8:])
				if err := p.send(protoA.Uint16(), uint16(r.Intn(4)), network.VerifDestAny, 0, payload); err == nil {
					sent = true
					p.query() // barrier on this connection (may find it closed)
				}
			}
			// barrier through the reactor queue: a one-hop packet of the monitor, sent after the barrier above
			serial++
			sentinel := serial
			sp := make([]byte, 8)
			binary.BigEndian.PutUint64(sp, sentinel)
			if err := pM.send(protoA.Uint16(), 0, network.VerifDestPeer, 1, sp); err != nil {
				c.Count("query_monitor_unavailable", 1)
				return
			}
			for s := range react.ch {
				if s == sentinel {
					break
				}
			}
			got := react.delivered(mySerial)
			wit := map[string]interface{}{"peer": p.name, "peer_id": hex.EncodeToString(p.id), "how": p.how, "claimed_role_bits": int(p.claim),
				"requested_conn_type": int(p.reqType), "granted_conn_type": int(p.granted), "closed_by_node": p.closed, "in_installed_validator_set": member,
				"node_is_validator": nodeIsValidator, "seed_list_installed": seedsInstalled, "query_result_message": p.queryMsg, "broadcast_sent": sent, "delivered": got,
				"node_key": hex.EncodeToString(nodeWallet.Address().ID())}
			if !member {
				if got {
					c.Violation("query.broadcast-from-non-validator-delivered."+p.how, wit)
					continue
				}
				c.Count("query_nonmember_broadcast_dropped", 1)
				c.Count("query_nonmember_"+p.how, 1)
				if p.closed {
					c.Count("query_nonmember_closed_by_node", 1)
				}
				c.NonTrivial(fmt.Sprintf("E/%s/%v/%v/%d/%d/%d", p.how, nodeIsValidator, seedsInstalled, p.claim, p.reqType, p.granted))
			} else {
				if sent && !p.closed && p.granted != network.VerifConnTypeNone && !got {
					c.Violation("query.validator-broadcast-not-delivered."+p.how, wit)
					continue
				}
				if got {
					c.Count("query_member_broadcast_delivered", 1)
					c.NonTrivial(fmt.Sprintf("E/%s/%v/%v/%d/%d/%d", p.how, nodeIsValidator, seedsInstalled, p.claim, p.reqType, p.granted))
				} else {
					c.Count("query_member_without_connection", 1)
				}
			}
		}
	}
	probe([]*speer{pA1, pA2, pB1, pB2, pB3})
	if c.Stopped() {
		return
	}
	// 5) the list changes: B3 is no validator any more; a further impostor B4 connects under the new list
	v2 := v1[:0:0]
	for _, id := range v1 {
		if !bytes.Equal(id.Bytes(), wB3.Address().ID()) {
			v2 = append(v2, id)
		}
	}
	nm.SetRole(2, module.RoleValidator, v2...)
	installed = map[string]bool{}
	for _, id := range v2 {
		installed[string(id.Bytes())] = true
	}
	if pB3 != nil {
		pB3.how = "removed-by-update"
	}
	pB4 := dial("B4", "claimed-after-update", mk())
	probe([]*speer{pB3, pB4, pA1, pB1})
}
