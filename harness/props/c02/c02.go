// Package c02: a correct validator never equivocates across crashes, and
// every vote/proposal is durable before it is sent (trace monitor + crash
// enumeration at WAL-operation boundaries with byte-prefix tears).
package c02

import (
	"math/rand"
	"time"

	"verif/lib/csnet"
	"verif/lib/ev"
	"verif/props/c01"
)

var tearBytes = []int{0, 1, 4, 7, 8, 9, 12, 40, 1 << 20}
var modes = []string{"before", "torn", "after"}

func init() {
	ev.Register(&ev.Prop{
		ID:    "C02",
		Level: "fault_enumeration",
		Cases: func(t string) int {
			if t == ev.Thorough {
				return 16 * len(modes) * len(tearBytes) / 3 * 4 // op index sweep x mode x tear classes
			}
			return 32
		},
		Batches:  func(t string) int { return 16 },
		Parallel: 12,
		Rule: "one case = one run of 4 real validators over a lossy/reordering network in which 1-3 crash points are injected into correct validators: crash point = (k-th WAL operation after reaching a height, over round/lock/commit WALs) x mode (before the op / torn inside Sync with a byte prefix of the unsynced tail surviving / after the op, before what follows it e.g. the broadcast); each WAL file keeps its synced bytes plus a chosen prefix of its unsynced tail (0, 1..7 header bytes, exactly 8, mid-payload, all); the validator restarts from the crash image with the same key and block DB and the run continues. Quick: PRNG-sampled points, a quarter directed (forced second round, a third validator cut off, the victim dies right after handing an own vote/proposal of round >=1 to the network), a quarter without crash but with block-import completion callbacks delayed by 2.5 s (p=0.6) at heights whose round-0 proposals are lost; thorough: systematic sweep of op index 0..15 x 3 modes x 9 tear sizes followed by 144 plans of the quick classes. Monitor: (a) dictionary over every signed vote/proposal seen on the wire across all incarnations: same (validator, height, round, type) with different signed bytes = violation; (b) at send time each own vote/proposal must be covered by a completed Sync of the round WAL; (c) after every restart's recovery, every own vote/proposal the validator had put on the wire in the height it restarts in must still be readable from its round WAL. Tears include a zero-filled record tail (full-length record with wrong checksum). Non-trivial = crash hit a validator that had already signed in that height and the restarted incarnation put a new signed message on the wire in the same height; distinct by (op, mode, tear class, wal).",
		MinNonTrivial: func(t string) int {
			if t == ev.Thorough {
				return 100
			}
			return 8
		},
		Required:    []string{"import_callbacks_delayed", "crashes", "restarts", "durable_before_send_checks", "remembered_after_recovery_checks", "sent_after_restart_same_height", "votes_seen"},
		Assumptions: []string{"MapDB models a durable synchronous block DB (crashes inside block-DB writes are not simulated)", "crash granularity = WAL operation boundaries with byte-prefix tears", "WAL frame = 8-byte header + payload (checked against the file size at every Sync; a mismatch is reported)"},
		TimeoutSec:  func(t string) int { if t == ev.Thorough { return 3000 }; return 420 },
		Run:         run,
	})
}

func makePlan(i int, r *rand.Rand, thorough bool) csnet.Options {
	plan := &csnet.Plan{Target: 4, DropP: 0.05, DelayP: 0.3, MaxDelayMs: 60, DupP: 0.05, FaultUntil: 3}
	opt := csnet.Options{N: 4, Plan: plan, TimeoutPropose: 600 * time.Millisecond}
	if thorough && i < 16*len(modes)*len(tearBytes) {
		// systematic: op index x mode x tear (the remaining thorough cases are the quick classes)
		k := i
		op := k % 16
		k /= 16
		mode := modes[k%len(modes)]
		k /= len(modes)
		tb := tearBytes[k%len(tearBytes)]
		victim := r.Intn(4)
		h := int64(1 + r.Intn(2))
		plan.Crashes = append(plan.Crashes, csnet.CrashSpec{Victim: victim, AtHeight: h, Point: csnet.CrashPoint{OpIndex: op, Mode: mode, TearBytes: tb, ZeroFill: r.Intn(2) == 0}})
		// a second crash of the same validator in the same or next height: reaches
		// "append after an unrepaired torn record"
		plan.Crashes = append(plan.Crashes, c01.RandCrash(r, victim, h+int64(r.Intn(3)/2)))
		if r.Intn(2) == 0 {
			plan.Crashes = append(plan.Crashes, c01.RandCrash(r, (victim+1)%4, h+1))
		}
	} else {
		if i%4 == 2 {
			// late import callbacks: the result of a round's block import reaches the engine
			// after it moved on (rounds are forced by losing round-0 proposals at two heights),
			// no crash needed: a correct validator must still sign one vote per (height, round, type)
			plan.ImportCbDelayMs = 2500
			plan.ImportCbDelayP = 0.6
			plan.DropP, plan.DelayP, plan.MaxDelayMs, plan.DupP = 0.1, 0.4, 300, 0.05
			plan.DropRound0At = []int64{int64(1 + r.Intn(2)), 3}
			opt.Rand = rand.New(rand.NewSource(r.Int63()))
			return opt
		}
		if i%4 == 3 {
			// directed: the height needs a second round (round-0 proposals are lost), and the
			// victim dies right after it handed an own vote/proposal of round >= 1 to the
			// network, before it can log anything else; nothing unsynced survives
			h := int64(1 + r.Intn(3))
			victim := r.Intn(4)
			plan.DropRound0At = []int64{h}
			plan.DropP, plan.DelayP, plan.DupP = 0, 0.2, 0
			kind := []string{"prevote", "prevote", "precommit", "proposal"}[r.Intn(4)]
			if kind == "proposal" {
				victim = int((h + 1) % 4) // proposer of round 1
			}
			// a third validator is cut off during that height, so the others cannot finish it
			// without the victim: whatever the victim signs after its restart reaches the wire
			for w := 0; w < 4; w++ {
				if w != victim && w != int((h+1)%4) {
					plan.Partitions = []csnet.Partition{{From: h, To: h, Group: []int{w}}}
					break
				}
			}
			plan.Crashes = append(plan.Crashes, csnet.CrashSpec{Victim: victim, AtHeight: h, OnSend: kind, MinRound: 1,
				Point: csnet.CrashPoint{OpIndex: 0, Mode: "before", TearBytes: 0}})
			opt.Rand = rand.New(rand.NewSource(r.Int63()))
			return opt
		}
		nc := 2 + r.Intn(2)
		victim := r.Intn(4)
		h := int64(1 + r.Intn(2))
		for k := 0; k < nc; k++ {
			if k == 2 {
				victim = (victim + 1) % 4
			}
			cs := c01.RandCrash(r, victim, h)
			if k == 0 && r.Intn(2) == 0 {
				// a torn Sync with a zero-filled record tail, followed by another crash
				// of the same validator: reaches "append behind an unrepaired record"
				cs.Point.Mode = "torn"
				cs.Point.ZeroFill = true
				cs.Point.TearBytes = []int{9, 12, 20, 40}[r.Intn(4)]
			}
			plan.Crashes = append(plan.Crashes, cs)
			h += int64(r.Intn(3) / 2)
		}
	}
	opt.Rand = rand.New(rand.NewSource(r.Int63()))
	return opt
}

func run(c *ev.Ctx) {
	c.Cases(func(i int, r *rand.Rand) {
		opt := makePlan(i, r, !c.IsQuick())
		c.Note("n=%d plan=%+v", opt.N, *opt.Plan)
		res := csnet.Run(opt, 45*time.Second)
		c01.Report(c, "C02", "crash", opt, res, true)
		for _, cr := range res.Crashes {
			for _, f := range cr.Files {
				if f.Name[:5] == "round" {
					c.Distinct("crash_points", cr.Mode+"/"+cr.Where+"/"+f.TearClass)
				}
			}
		}
	})
}
