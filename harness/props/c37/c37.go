// Package c37: transactions proposed from the pool are valid for the block
// being proposed.
package c37

import (
	"encoding/hex"
	"fmt"
	"math/big"
	"math/rand"
	"strings"
	"time"

	"github.com/icon-project/goloop/common"
	"github.com/icon-project/goloop/common/log"
	"github.com/icon-project/goloop/common/txlocator"
	"github.com/icon-project/goloop/module"
	"github.com/icon-project/goloop/service"
	"github.com/icon-project/goloop/service/state"
	"github.com/icon-project/goloop/service/transaction"

	"verif/lib/ev"
	"verif/lib/feefix"
)

func init() {
	ev.Register(&ev.Prop{
		ID:    "C37",
		Level: "exploration",
		Cases: func(t string) int {
			if t == ev.Thorough {
				return 3200
			}
			return 96
		},
		Batches: func(t string) int {
			if t == ev.Thorough {
				return 32
			}
			return 16
		},
		Rule: "each case = one real service stack (6 EOAs: rich, about k transactions' worth, empty; step price 0/1/12500000000; threshold 1-3 ms) + real TransactionPool + TXIDManager on the transitions' locator manager, and 3 proposal rounds (a quarter of the cases instead: transactions on the window edges ts == bts+th / bts+th-1 / bts-th+1 are finalized, further blocks are finalized and flushed until their locator list left the cache, governance RAISES the threshold, and the finalized transactions are re-sent before one round). Round: offer 5-60 signed v3 transactions to the pool (timestamps on and around both window edges of the block to propose, runs of transactions of one sender that exhaust its balance at a random position, value sent to an empty account that spends it later in the same list, transactions already included in a finalized block, duplicates offered twice, step limits below the minimum, count/byte limits; in a third of the first rounds a self transfer with value of a poor sender followed by a spend of the same sender sized against the real remaining balance (exactly affordable, or 1..value above it); in another third a directed shape: fillers, then a large message transaction funding an empty account B, then a small transaction of B payable only from that funding, with Candidate's byte or count budget ending at the large one), call Candidate(wc of the parent state), judge the returned list with an independent ledger (window predicate, finalized-id set, no id twice, stepLimit >= default+input steps, balance >= stepLimit*price+value with the cumulative effect of the transactions before it) and differentially: service.NewTransition(parent, list, validated=false) must validate. The block is then executed and finalized and the next round starts with the pool as it is. Non-trivial = distinct round whose offered set contained at least one transaction the candidate list must not contain for each of two or more different reasons and whose returned list was not empty.",
		MinNonTrivial: func(t string) int {
			if t == ev.Thorough {
				return 5000
			}
			return 120
		},
		Required: []string{"rounds", "candidates_selected", "offered_outside_window", "offered_at_eq-max", "offered_at_eq-min", "offered_committed",
			"offered_exhausting", "offered_below_min_step", "offered_spend_received", "selected_spend_received", "revalidated_ok", "limit_count_hit", "limit_bytes_hit", "offered_duplicate_add",
			"directed_budget_shape_bytes", "directed_budget_shape_count", "directed_big_left_out",
			"directed_self-then-overspend", "directed_self-then-exact-spend", "selected_self_transfer", "selected_self-then-exact-spend",
			"candidates_after_eviction_with_raised_threshold", "reoffered_evicted_ts_eq_maxTSInDB"},
		Assumptions: []string{
			"the proposer's parent block is finalized when it proposes (consensus order), so 'included before' = finalized ids; Candidate is asked with the parent's result state",
			"completeness (that every valid transaction is selected) is not part of the statement and not judged",
		},
		TimeoutSec: func(t string) int {
			if t == ev.Thorough {
				return 3000
			}
			return 900
		},
		Run: run,
	})
}

type nullMonitor struct{}

func (nullMonitor) OnDropTx(n int, user bool)                         {}
func (nullMonitor) OnAddTx(n int, user bool)                          {}
func (nullMonitor) OnRemoveTx(n int, user bool)                       {}
func (nullMonitor) OnCommit(id []byte, ts time.Time, d time.Duration) {}

type otx struct {
	tx      transaction.Transaction
	from    int
	to      module.Address
	value   *big.Int
	limit   *big.Int
	ts      int64
	minStep int64
	tag     string
}

type wtx struct {
	ID    string `json:"id"`
	From  string `json:"from"`
	To    string `json:"to"`
	Value string `json:"value"`
	Limit string `json:"stepLimit"`
	TS    int64  `json:"ts"`
	Tag   string `json:"tag"`
	JSON  string `json:"tx,omitempty"`
}

func (o *otx) w(e *env, full bool) wtx {
	w := wtx{ID: hex.EncodeToString(o.tx.ID()[:6]), From: e.st.Wallets[o.from].Address().String(), To: o.to.String(),
		Value: o.value.String(), Limit: o.limit.String(), TS: o.ts, Tag: o.tag}
	if full {
		js, _ := o.tx.ToJSON(module.JSONVersionLast)
		w.JSON = feefix.JSONString(js)
	}
	return w
}

type env struct {
	st           *feefix.Stack
	price        *big.Int
	defCost      int64
	inputCost    int64
	th           int64 // µs
	pool         *service.TransactionPool
	lm           module.LocatorManager
	byID         map[string]*otx
	committed    map[string]bool
	nonce        int64
	empties      []module.Wallet
	forceReoffer []*otx
}

func run(c *ev.Ctx) {
	c.Cases(func(ci int, r *rand.Rand) {
		e := &env{byID: map[string]*otx{}, committed: map[string]bool{}}
		e.price = []*big.Int{big.NewInt(0), big.NewInt(1), big.NewInt(12500000000), big.NewInt(12500000000)}[r.Intn(4)]
		e.defCost = []int64{100000, 1000, 10}[r.Intn(3)]
		e.inputCost = []int64{200, 0, 5}[r.Intn(3)]
		thMS := int64(1 + r.Intn(3))
		e.th = thMS * 1000
		unit := new(big.Int).Mul(big.NewInt(e.defCost+e.inputCost*50), e.price)
		unit.Add(unit, big.NewInt(1000))
		bal := []*big.Int{
			new(big.Int).Mul(unit, big.NewInt(100000)),
			new(big.Int).Mul(unit, big.NewInt(int64(2+r.Intn(6)))),
			new(big.Int).Mul(unit, big.NewInt(int64(1+r.Intn(4)))),
			new(big.Int).Add(unit, big.NewInt(int64(r.Intn(500)))),
			new(big.Int),
			new(big.Int),
		}
		st, err := feefix.New(feefix.Config{StepPrice: e.price, ThresholdMS: thMS,
			StepCosts:  map[string]int64{"default": e.defCost, "input": e.inputCost, "contractCall": 25000},
			StepLimits: map[string]int64{"invoke": 2500000000, "query": 50000000}, Balances: bal})
		if err != nil {
			c.Violation("harness.setup", err.Error())
			return
		}
		defer st.Close()
		e.st = st
		e.lm = service.VerifLocatorManager(st.Base.Tr)
		tim, err := service.NewTXIDManager(e.lm, st.TSC, nil)
		if err != nil {
			c.Violation("harness.setup", err.Error())
			return
		}
		logger := log.New()
		logger.SetLevel(log.FatalLevel)
		e.pool = service.NewTransactionPool(module.TransactionGroupNormal, 5000, tim, nullMonitor{}, logger)
		c.Note("env price=%s default=%d input=%d th=%d", e.price, e.defCost, e.inputCost, e.th)
		parent := st.Base
		bts := int64(1000000 + r.Intn(100000))
		if r.Intn(4) == 0 {
			e.evictedScenario(c, r, parent, bts)
			return
		}
		for round := 0; round < 3 && !c.Stopped(); round++ {
			bts += 300 + int64(r.Intn(int(e.th)))
			nb := e.round(c, r, parent, bts, round)
			if nb == nil {
				return
			}
			parent = nb
		}
	})
}

func (e *env) mk(r *rand.Rand, from int, to module.Address, value, limit *big.Int, ts int64, dataLen int, tag string) *otx {
	e.nonce++
	var data interface{}
	dt := ""
	bytesN := 0
	if dataLen >= 0 {
		b := make([]byte, dataLen)
		r.Read(b)
		s := "0x" + hex.EncodeToString(b)
		data, dt, bytesN = s, "message", len(s)+2
	}
	min := e.defCost + e.inputCost*int64(bytesN)
	if limit == nil {
		limit = big.NewInt(min + int64(r.Intn(3))*1000)
	} else if limit.Sign() < 0 {
		limit = big.NewInt(min - 1)
	}
	tx, err := feefix.SignedTx(feefix.TxSpec{From: e.st.Wallets[from], To: to, Value: value, StepLimit: limit, Timestamp: ts,
		Nonce: big.NewInt(e.nonce), DataType: dt, Data: data})
	if err != nil {
		panic(err)
	}
	o := &otx{tx: tx, from: from, to: to, value: new(big.Int).Set(value), limit: limit, ts: ts, minStep: min, tag: tag}
	e.byID[string(tx.ID())] = o
	return o
}

func (e *env) edgeTS(r *rand.Rand, bts int64) (int64, string) {
	switch r.Intn(14) {
	case 0, 1:
		return bts - e.th, "eq-min"
	case 2:
		return bts - e.th - 1 - int64(r.Intn(1000)), "below-min"
	case 3, 4:
		return bts - e.th + 1, "min+1"
	case 5, 6:
		return bts + e.th, "eq-max"
	case 7, 8:
		return bts + e.th + 1, "max+1"
	case 9:
		return bts + e.th + 2 + int64(r.Intn(1000)), "above-max"
	default:
		return bts - e.th + 1 + r.Int63n(2*e.th), "inside"
	}
}

func inWindow(ts, bts, th int64) bool { return ts > bts-th && ts <= bts+th }

// evictedScenario: transactions on the window edges of a block are finalized,
// later blocks are finalized and flushed until the block's locator list left
// the in-memory cache (DB path), a governance call RAISES the timestamp
// threshold so that the old timestamps are valid again, and the finalized
// transactions are sent to the pool once more. Only finalized + flushed +
// evicted blocks are involved (no unfinalized trackers).
func (e *env) evictedScenario(c *ev.Ctx, r *rand.Rand, parent *feefix.Block, bts int64) {
	fin := func(b *feefix.Block) bool {
		if !b.OK() {
			c.Violation("harness.evicted-scenario.block", fmt.Sprint(b.ValidateErr, b.ExecErr))
			return false
		}
		if err := b.Finalize(); err != nil {
			c.Violation("harness.finalize", err.Error())
			return false
		}
		txlocator.VerifWaitFlush(e.lm)
		return true
	}
	// block times beyond the window of the initial tracker list (time 0, default
	// threshold of 5 min), which otherwise stays at the head of the cache and
	// keeps everything behind it cached
	bts += 2000000000
	th := e.th
	var first []*otx
	for _, ts := range []int64{bts + th, bts + th, bts + th - 1, bts - th + 1, bts} {
		first = append(first, e.mk(r, 0, e.st.Wallets[1].Address(), big.NewInt(int64(1+r.Intn(50))), nil, ts, -1, "edge-finalized"))
	}
	txs := make([]module.Transaction, len(first))
	for i, o := range first {
		txs[i] = o.tx
	}
	c.Note("evicted-scenario bts=%d th=%d", bts, th)
	b1 := e.st.Exec(parent, txs, bts, false)
	if !fin(b1) {
		return
	}
	for _, o := range first {
		e.committed[string(o.tx.ID())] = true
	}
	// empty blocks until the list of b1 is evicted (a committed list with bts-th >= b1.bts+th)
	b2 := e.st.Exec(b1, nil, bts+th+int64(r.Intn(int(th))), false)
	if !fin(b2) {
		return
	}
	newTh := th + int64(2+r.Intn(4))*1000
	e.nonce++
	gov, err := feefix.SignedTx(feefix.TxSpec{From: e.st.Gov, To: common.MustNewAddressFromString("cx0000000000000000000000000000000000000000"),
		StepLimit: big.NewInt(100000000), Timestamp: bts + 2*th + 100, Nonce: big.NewInt(e.nonce), DataType: "call",
		Data: map[string]interface{}{"method": "setTimestampThreshold", "params": map[string]interface{}{"threshold": fmt.Sprintf("0x%x", newTh/1000)}}})
	if err != nil {
		panic(err)
	}
	b3 := e.st.Exec(b2, []module.Transaction{gov}, bts+2*th+100+int64(r.Intn(200)), false)
	if !fin(b3) {
		return
	}
	if rs, err := b3.Receipts(); err != nil || rs[0].Status() != module.StatusSuccess {
		c.Violation("harness.evicted-scenario.threshold-call", fmt.Sprint(err))
		return
	}
	evicted := 0
	_, _, maxTS := txlocator.VerifCacheInfo(e.lm, module.TransactionGroupNormal)
	for _, o := range first {
		if !txlocator.VerifCached(e.lm, o.tx.ID()) {
			evicted++
			if o.ts == maxTS {
				c.Count("reoffered_evicted_ts_eq_maxTSInDB", 1)
			}
		}
	}
	if nl, nloc, _ := txlocator.VerifCacheInfo(e.lm, module.TransactionGroupNormal); evicted != len(first) {
		c.Notef("evicted-scenario: evicted=%d of %d lists=%d locators=%d maxTS=%d b1=(%d,%d) b2=%d b3=%d", evicted, len(first), nl, nloc, maxTS, bts, th, b2.TS, b3.TS)
	}
	if evicted == len(first) {
		c.Count("candidates_after_eviction_with_raised_threshold", 1)
	}
	e.th = newTh
	e.forceReoffer = first
	e.round(c, r, b3, b3.TS+200+int64(r.Intn(300)), 3)
}

func (e *env) round(c *ev.Ctx, r *rand.Rand, parent *feefix.Block, bts int64, round int) *feefix.Block {
	ws, err := parent.Snapshot()
	if err != nil {
		c.Violation("harness.snapshot", err.Error())
		return nil
	}
	balOf := func(a module.Address) *big.Int { return feefix.Balance(ws, a) }
	nW := len(e.st.Wallets)
	var offered []*otx
	reasons := map[string]bool{}
	n := 5 + r.Intn(56)
	for len(offered) < n {
		switch k := r.Intn(100); {
		case k < 30:
			// timestamps around the window edges, rich sender
			ts, cls := e.edgeTS(r, bts)
			o := e.mk(r, 0, e.st.Wallets[1+r.Intn(nW-1)].Address(), big.NewInt(int64(r.Intn(50))), nil, ts, -1, "edge:"+cls)
			offered = append(offered, o)
			if cls == "eq-min" || cls == "eq-max" {
				c.Count("offered_at_"+cls, 1)
			}
			if !inWindow(ts, bts, e.th) {
				c.Count("offered_outside_window", 1)
				reasons["window"] = true
			}
		case k < 55:
			// a run of transactions of one poor sender that together exceed its balance
			from := 1 + r.Intn(3)
			b := balOf(e.st.Wallets[from].Address())
			m := 2 + r.Intn(5)
			per := new(big.Int).Div(b, big.NewInt(int64(1+r.Intn(m))))
			for j := 0; j < m; j++ {
				lim := big.NewInt(e.defCost)
				v := new(big.Int).Sub(per, new(big.Int).Mul(lim, e.price))
				if v.Sign() < 0 {
					v = new(big.Int)
				}
				if r.Intn(4) == 0 {
					v.Add(v, big.NewInt(1))
				}
				ts := bts - e.th + 1 + r.Int63n(2*e.th)
				offered = append(offered, e.mk(r, from, e.st.Wallets[0].Address(), v, lim, ts, -1, "exhaust"))
			}
			c.Count("offered_exhausting", m)
			reasons["balance"] = true
		case k < 67:
			// value to an empty account which spends it later in the same list
			ei := 4 + r.Intn(2)
			v := new(big.Int).Mul(big.NewInt(e.defCost*3), e.price)
			v.Add(v, big.NewInt(1000))
			ts := bts - e.th + 1 + r.Int63n(e.th)
			offered = append(offered, e.mk(r, 0, e.st.Wallets[ei].Address(), v, nil, ts, -1, "fund-empty"))
			spend := big.NewInt(int64(r.Intn(900)))
			offered = append(offered, e.mk(r, ei, e.st.Wallets[0].Address(), spend, big.NewInt(e.defCost), ts+1+r.Int63n(e.th-1), -1, "spend-received"))
			c.Count("offered_spend_received", 1)
		case k < 75:
			// step limit below default+input
			offered = append(offered, e.mk(r, 0, e.st.Wallets[1].Address(), big.NewInt(1), big.NewInt(-1), bts, []int{-1, 0, 30}[r.Intn(3)], "below-min-step"))
			if e.defCost+e.inputCost > 0 {
				c.Count("offered_below_min_step", 1)
				reasons["step"] = true
			}
		case k < 85:
			// message with data
			ts, cls := e.edgeTS(r, bts)
			offered = append(offered, e.mk(r, 0, e.st.Wallets[2].Address(), big.NewInt(0), nil, ts, r.Intn(200), "message:"+cls))
			if !inWindow(ts, bts, e.th) {
				c.Count("offered_outside_window", 1)
				reasons["window"] = true
			}
		default:
			// re-offer a transaction of a finalized block
			var ids []string
			for id := range e.committed {
				ids = append(ids, id)
			}
			if len(ids) == 0 {
				continue
			}
			sortStrings(ids)
			o := e.byID[ids[r.Intn(len(ids))]]
			cp := *o
			cp.tag = "committed"
			offered = append(offered, &cp)
			c.Count("offered_committed", 1)
			if inWindow(o.ts, bts, e.th) {
				c.Count("offered_committed_in_window", 1)
				reasons["committed"] = true
			}
		}
	}
	for _, o := range e.forceReoffer {
		cp := *o
		cp.tag = "committed-evicted"
		offered = append(offered, &cp)
		c.Count("offered_committed", 1)
		if inWindow(o.ts, bts, e.th) {
			c.Count("offered_committed_in_window", 1)
			reasons["committed"], reasons["evicted"] = true, true
		}
	}
	e.forceReoffer = nil
	r.Shuffle(len(offered), func(i, j int) { offered[i], offered[j] = offered[j], offered[i] })

	// Directed shape (fresh pool only, so that the order in the pool is known):
	// fillers of the rich sender, then a LARGE message transaction carrying
	// value v to an account B that owns nothing, then a small transaction of
	// B that can only be paid from v. The byte (or count) budget of Candidate
	// ends right before / at the large one. Whatever Candidate does with the
	// budget, B's transaction may only be selected together with its funding.
	dirBytes, dirCount := 0, 0
	shape := -1
	if round == 0 {
		shape = r.Intn(3)
	}
	if shape == 1 {
		// Directed shape 2: a SELF transfer (from == to, value > 0) of a poor
		// sender followed by another transaction of the same sender that costs
		// more than what really remains after the self transfer's fee (must not
		// be selected) or exactly what remains (may be selected).
		si := 3
		sender := e.st.Wallets[si]
		b := balOf(sender.Address())
		fee := new(big.Int).Mul(big.NewInt(e.defCost), e.price)
		if b.Cmp(new(big.Int).Add(fee, big.NewInt(2))) > 0 {
			v := new(big.Int).Sub(b, fee)
			v.Div(v, big.NewInt(int64(1+r.Intn(3)))) // value of the self transfer: up to everything but the fee
			if v.Sign() == 0 {
				v = big.NewInt(1)
			}
			remain := new(big.Int).Sub(b, fee) // after the self transfer
			var v2 *big.Int
			tag := "self-then-overspend"
			if r.Intn(3) == 0 {
				// affordable: costs exactly what remains (or less)
				v2 = new(big.Int).Sub(remain, fee)
				tag = "self-then-exact-spend"
			} else {
				// remain < cost2 <= remain + v (what a stale credit would pretend)
				v2 = new(big.Int).Sub(remain, fee)
				v2.Add(v2, big.NewInt(1))
				v2.Add(v2, new(big.Int).Rand(r, v))
			}
			if v2.Sign() >= 0 {
				selfTx := e.mk(r, si, sender.Address(), v, big.NewInt(e.defCost), bts-e.th+2, -1, "self-transfer")
				spend := e.mk(r, si, e.st.Wallets[0].Address(), v2, big.NewInt(e.defCost), bts-e.th+3, -1, tag)
				var rest []*otx
				for _, o := range offered {
					if o.from != si && o.tag != "committed" {
						rest = append(rest, o)
					}
				}
				offered = append([]*otx{selfTx, spend}, rest...)
				reasons["balance"], reasons["self-transfer"] = true, true
				c.Count("directed_self_transfer_shape", 1)
				c.Count("directed_"+tag, 1)
			}
		}
	}
	if shape == 0 {
		bi := 4 + r.Intn(2)
		if balOf(e.st.Wallets[bi].Address()).Sign() == 0 {
			var group []*otx
			nf := 1 + r.Intn(4)
			fill := 0
			for i := 0; i < nf; i++ {
				o := e.mk(r, 0, e.st.Wallets[1].Address(), big.NewInt(int64(r.Intn(50))), nil, bts-e.th+1+int64(i), -1, "budget-filler")
				fill += len(o.tx.Bytes())
				group = append(group, o)
			}
			v := new(big.Int).Mul(big.NewInt(e.defCost*3), e.price)
			v.Add(v, big.NewInt(1000))
			bigTx := e.mk(r, 0, e.st.Wallets[bi].Address(), v, nil, bts, 400+r.Intn(1200), "budget-big-funds-B")
			small := e.mk(r, bi, e.st.Wallets[0].Address(), big.NewInt(int64(r.Intn(900))), big.NewInt(e.defCost), bts+1, -1, "budget-small-from-B")
			group = append(group, bigTx, small)
			bigN, smallN := len(bigTx.tx.Bytes()), len(small.tx.Bytes())
			if r.Intn(3) == 0 {
				dirCount = nf + r.Intn(2) // ends before, or with, the large one
			} else {
				// fillers and B's transaction fit, the large one does not
				dirBytes = fill + smallN + r.Intn(bigN-smallN)
			}
			// keep the order of the group; the rest must not get in front of it
			var rest []*otx
			for _, o := range offered {
				if o.from != 0 && o.from != bi && o.tag != "committed" {
					rest = append(rest, o)
				}
			}
			offered = append(group, rest...)
			reasons["byte-budget"], reasons["balance"] = true, true
			c.Count("directed_budget_shape", 1)
			if dirBytes > 0 {
				c.Count("directed_budget_shape_bytes", 1)
			} else {
				c.Count("directed_budget_shape_count", 1)
			}
		}
	}
	wo := make([]wtx, len(offered))
	for i, o := range offered {
		wo[i] = o.w(e, true)
	}
	c.Note("round %d bts=%d th=%d offered=%s", round, bts, e.th, feefix.JSONString(wo))
	for _, o := range offered {
		err := e.pool.Add(o.tx, r.Intn(2) == 0)
		if err == nil && r.Intn(8) == 0 {
			// the same transaction offered twice
			if err2 := e.pool.Add(o.tx, true); err2 == nil {
				c.Violation("pool.add.duplicate-accepted", o.w(e, true))
			} else {
				c.Count("offered_duplicate_add", 1)
			}
		}
	}

	maxCount, maxBytes := 0, 0
	switch r.Intn(5) {
	case 0:
		maxCount = 1 + r.Intn(10)
	case 1:
		maxBytes = 300 + r.Intn(3000)
	}
	if dirBytes > 0 || dirCount > 0 {
		maxBytes, maxCount = dirBytes, dirCount
	}
	wsm, err := state.WorldStateFromSnapshot(ws)
	if err != nil {
		c.Violation("harness.worldstate", err.Error())
		return nil
	}
	bi := common.NewBlockInfo(parent.Height+1, bts)
	wc := state.NewWorldContext(wsm, bi, nil, e.st.Platform)
	c.Eval(1)
	txs, size := e.pool.Candidate(wc, maxBytes, maxCount)
	c.Count("rounds", 1)
	c.Count("candidates_selected", len(txs))

	// ---- independent ledger over the returned list ----
	bal := map[string]*big.Int{}
	getBal := func(a module.Address) *big.Int {
		k := string(a.ID())
		if bal[k] == nil {
			bal[k] = balOf(a)
		}
		return bal[k]
	}
	sel := make([]wtx, 0, len(txs))
	seen := map[string]bool{}
	total := 0
	base := map[string]interface{}{"block_ts": bts, "threshold": e.th, "window": fmt.Sprintf("(%d, %d]", bts-e.th, bts+e.th),
		"price": e.price.String(), "default_step": e.defCost, "input_step": e.inputCost, "max_count": maxCount, "max_bytes": maxBytes}
	viol := func(key string, i int, extra map[string]interface{}) {
		m := map[string]interface{}{"env": base, "selected": sel, "index": i, "offered": wo}
		for k, v := range extra {
			m[k] = v
		}
		c.Violation(key, m)
	}
	for i, t := range txs {
		o := e.byID[string(t.ID())]
		if o == nil {
			viol("candidate.unknown-transaction", i, map[string]interface{}{"id": hex.EncodeToString(t.ID())})
			continue
		}
		sel = append(sel, o.w(e, false))
		total += len(t.Bytes())
		if seen[string(t.ID())] {
			viol("candidate.same-id-twice", i, nil)
		}
		seen[string(t.ID())] = true
		if !inWindow(o.ts, bts, e.th) {
			cls := "ts-above-max"
			if o.ts <= bts-e.th {
				cls = "ts-not-above-min"
				if o.ts == bts-e.th {
					cls = "ts-eq-min"
				}
			} else if o.ts == bts+e.th+1 {
				cls = "ts-eq-max-plus-1"
			}
			viol("candidate.outside-window."+cls, i, nil)
		}
		if e.committed[string(t.ID())] {
			viol("candidate.already-included", i, nil)
		}
		if o.limit.Int64() < o.minStep {
			viol("candidate.step-limit-below-minimum", i, map[string]interface{}{"min_step": o.minStep})
		}
		need := new(big.Int).Mul(o.limit, e.price)
		need.Add(need, o.value)
		fb := getBal(e.st.Wallets[o.from].Address())
		if fb.Cmp(need) < 0 {
			viol("candidate.cumulative-balance-insufficient", i, map[string]interface{}{"balance_before_tx": fb.String(), "needs": need.String()})
		}
		fb.Sub(fb, need)
		tb := getBal(o.to)
		tb.Add(tb, o.value)
		if o.tag == "spend-received" {
			c.Count("selected_spend_received", 1)
		}
		if o.tag == "self-transfer" {
			c.Count("selected_self_transfer", 1)
		}
		if o.tag == "self-then-exact-spend" || o.tag == "self-then-overspend" {
			c.Count("selected_"+o.tag, 1)
		}
	}
	if dirBytes > 0 || dirCount > 0 {
		hasBig := false
		for _, w := range sel {
			if w.Tag == "budget-big-funds-B" {
				hasBig = true
			}
		}
		if !hasBig {
			c.Count("directed_big_left_out", 1)
		}
	}
	if maxCount > 0 && len(txs) == maxCount {
		c.Count("limit_count_hit", 1)
	}
	if maxBytes > 0 && len(txs) < len(offered) && total > maxBytes/2 {
		c.Count("limit_bytes_hit", 1)
	}
	if maxCount > 0 && len(txs) > maxCount {
		c.Count("limit_count_exceeded", 1)
	}
	_ = size

	// ---- differential: the list must validate as a block on the same parent ----
	rtx := make([]module.Transaction, len(txs))
	copy(rtx, txs)
	blk := e.st.Exec(parent, rtx, bts, false)
	if blk.ValidateErr != nil {
		viol("candidate.rejected-by-validation", -1, map[string]interface{}{"validation_error": blk.ValidateErr.Error()})
		return nil
	}
	if blk.ExecErr != nil {
		viol("candidate.block-execution-error", -1, map[string]interface{}{"error": blk.ExecErr.Error()})
		return nil
	}
	c.Count("revalidated_ok", 1)
	if len(reasons) >= 2 && len(txs) > 0 {
		var ks []string
		for k := range reasons {
			ks = append(ks, k)
		}
		sortStrings(ks)
		var d []string
		for _, o := range offered {
			d = append(d, fmt.Sprintf("%s/%d/%s", o.tag, o.ts-bts, o.value))
		}
		c.NonTrivial(strings.Join(ks, ",") + "|" + strings.Join(d, ";"))
	}
	if c.WantSample() && len(offered) < 12 && len(txs) > 0 {
		c.Sample(map[string]interface{}{"env": base, "offered": len(offered), "selected": sel})
	}
	// finalize the proposed block; its transactions are "included before" from now on
	if err := blk.Finalize(); err != nil {
		c.Violation("harness.finalize", err.Error())
		return nil
	}
	txlocator.VerifWaitFlush(e.lm)
	for _, t := range txs {
		e.committed[string(t.ID())] = true
	}
	e.pool.RemoveList(blk.Tr.NormalTransactions())
	// let the asynchronous drop of rejected transactions settle (pool housekeeping)
	time.Sleep(time.Millisecond)
	return blk
}

func sortStrings(s []string) {
	for i := 1; i < len(s); i++ {
		for j := i; j > 0 && s[j] < s[j-1]; j-- {
			s[j], s[j-1] = s[j-1], s[j]
		}
	}
}
