// Package c03: the consensus write-ahead log (consensus/wal.go) recovers
// exactly a durable prefix after any crash.
//
// Shape F (fault enumeration). A history of WriteBytes/Sync/Shift/Close is
// run against the real file WAL in a scratch directory. A crash is simulated
// by copying the segment files and truncating the newest segment to EVERY
// length between its known-synced length and its current length (any prefix
// of the not-yet-synced bytes may survive). Every crash image is recovered
// with exactly the protocol of consensus.applyRoundWAL/applyLockWAL/
// applyCommitWAL (read until error; io.EOF = clean end; corrupted or
// unexpected EOF = CloseAndRepair; then OpenWALForWrite and append) and the
// oracle
//
//	synced ⊑ recovered ⊑ appended        (prefix order on record lists)
//
// is evaluated after every recovery, over multi-cycle crash/recover/append
// lineages.
package c03

import (
	"bytes"
	"encoding/binary"
	"encoding/hex"
	"fmt"
	"math/rand"
	"os"
	"path/filepath"
	"sort"
	"strconv"
	"strings"
	"time"

	"github.com/icon-project/goloop/common/log"
	"github.com/icon-project/goloop/consensus"

	"verif/lib/ev"
)

const (
	walName   = "w"
	headerLen = 8
	never     = 24 * time.Hour
	noLimit   = int64(1) << 40
)

type tierParams struct {
	maxDepth     int       // number of crash/recover cycles in a lineage
	exhaustiveTo int64     // tails up to this many bytes are enumerated byte-exhaustively
	deepBoundary []float64 // per depth: probability that a boundary-class image gets byte-exhaustive children
	deepOther    []float64 // per depth: same for other images
}

func paramsFor(tier string) tierParams {
	if tier == ev.Thorough {
		return tierParams{
			maxDepth:     5,
			exhaustiveTo: 1500,
			deepBoundary: []float64{0, 0.5, 0.05, 0.02, 0.01, 0},
			deepOther:    []float64{0, 0.03, 0, 0, 0, 0},
		}
	}
	return tierParams{
		maxDepth:     3,
		exhaustiveTo: 700,
		deepBoundary: []float64{0, 0.4, 0.1, 0},
		deepOther:    []float64{0, 0.02, 0, 0},
	}
}

func init() {
	ev.Register(&ev.Prop{
		ID:    "C03",
		Level: "fault_enumeration",
		Cases: func(t string) int {
			if t == ev.Thorough {
				return 240
			}
			return 48
		},
		Batches: func(t string) int { return 16 },
		Rule: "case = one history of WriteBytes (payload lengths biased to 0,1,2,7,8,9,55,56,255,256,4087,4088,4089,4096,8184,8192 and random) / Sync / Shift / Close+reopen on the real file WAL (2/3 with housekeeping idle and explicit Shift, 1/3 with a 10 ms housekeeper and a FileLimit of 64..600 bytes so that doHousekeeping rotates; half of those also with retention ON: TotalLimit 2-3x FileLimit, so that the eldest segments are deleted and the head index is > 0 before the crash; the history waits until the new segment / the removal is observable). 4 of every 48 histories (idle housekeeping, case%12==1) contain ONE large record of 2 MiB+1, 3 MiB, 2 MiB or 2 MiB-1 payload bytes (around wal.go's default FileLimit): three times synced early so that other synced records follow it, once (3 MiB) unsynced in the tail; these histories are explored to depth 2 with about 10 level-1 offsets (both ends + PRNG choice; multi-megabyte slices are very slow under the race detector) (tail with the large record: offsets near frame boundaries, the first/last eight 4096 multiples and those around 2 MiB, first/last 40, 40 random). Housekeeper histories also append payloads of exactly FileLimit-8, FileLimit and FileLimit+1 bytes. Records of segments that housekeeping removed before the crash are outside the statement: the expected list starts at the first record of the oldest segment of the crash image (the monitor notes the first record index of every segment when it first observes it). Crash = copy of the segment files with the newest segment truncated to EVERY length from its synced length to its current length (byte-exhaustive for tails up to 700 bytes quick / 1500 thorough; larger tails: all offsets within 12 bytes of a frame boundary or a 4096 multiple, the first and last 200, and 200 random ones), plus the variant where a just-created empty newest segment is absent. Each image is recovered with the protocol of consensus.applyRoundWAL (read until error; EOF clean; corrupted/unexpected EOF -> CloseAndRepair; when a repair happened the log is reopened once more), then a writer is reopened, 1-2 records are appended and synced, optionally Shift, 0-2 further records stay unsynced, and the log is crashed again: byte-exhaustively for images selected by class (boundary classes with the per-depth probabilities of the tier), otherwise only with the complete tail; depth 3 quick / 5 thorough. Oracle after EVERY recovery: synced ⊑ recovered ⊑ appended. Non-trivial = distinct crash image (hash of the whole lineage) whose crash offset is strictly inside a frame (header or payload) or at the start of a rotated segment.",
		MinNonTrivial: func(t string) int {
			if t == ev.Thorough {
				return 300000
			}
			return 20000
		},
		Required: []string{
			"recoveries", "repairs", "repairs_multi_segment", "reopen_after_repair",
			"class_in-header", "class_header-complete-payload-empty", "class_in-payload", "class_frame-aligned",
			"images_tear_in_first_record_of_rotated_segment", "images_empty_rotated_segment", "images_rotated_segment_absent",
			"appends_after_recovery", "records_recovered", "synced_records_checked",
			"explicit_shifts", "housekeeper_rotations", "close_reopen_ops", "tails_byte_exhaustive",
			"retention_removed_segments", "images_head_index_gt0", "recoveries_after_retention_dropped_head",
			"histories_with_record_over_2MiB", "recoveries_over_large_record",
			"depth_1_images", "depth_2_images", "depth_3_images",
		},
		Assumptions: []string{
			"crash model of the statement: the file system keeps every byte covered by a completed Sync/Shift/Close and an arbitrary PREFIX of the bytes written after it; older segments are complete once a newer one exists (shift syncs before creating it)",
			"log retention: records in segments deleted by housekeeping before the crash are not expected back; everything from the first record of the oldest surviving segment is",
			"scratch directory on tmpfs when /dev/shm exists (fsync durability is modelled by the monitor, not by the disk)",
			"a crash during Sync (after the buffer flush, before fsync returns) is simulated by calling Sync and not advancing the synced watermark",
		},
		TimeoutSec: func(t string) int {
			if t == ev.Thorough {
				return 5400
			}
			return 600
		},
		Env: func(tier string, batch int) []string {
			if st, err := os.Stat("/dev/shm"); err == nil && st.IsDir() {
				if f, err := os.CreateTemp("/dev/shm", "verif-c03-probe"); err == nil {
					f.Close()
					os.Remove(f.Name())
					return []string{"TMPDIR=/dev/shm"}
				}
			}
			return nil
		},
		Run: run,
	})
}

// ---------------------------------------------------------------- model

type model struct {
	appended   [][]byte
	synced     int              // records covered by a completed Sync/Shift/Close
	syncedSize map[uint64]int64 // bytes per segment known durable
	hist       []string         // lineage log (witness)
	nextSeq    int
	// retention bookkeeping: segFirst[k] = index (in appended) of the first
	// record of segment k, noted when the segment is first observed (a shift
	// flushes every buffered record into the old segment first, so a record
	// never straddles segments); base = first record of the oldest segment of
	// the crash image: records before it were removed by housekeeping (log
	// retention) before the crash and are outside the statement.
	segFirst map[uint64]int
	base     int
	// blame names the first recovery of the lineage that ended with a clean
	// EOF although the image ended inside a frame (the partial frame stays in
	// the log); a later violation of the lineage is keyed by it.
	blame string
}

func (m *model) clone() *model {
	n := &model{synced: m.synced, nextSeq: m.nextSeq, blame: m.blame, base: m.base}
	n.segFirst = map[uint64]int{}
	for k, v := range m.segFirst {
		n.segFirst[k] = v
	}
	n.appended = append([][]byte(nil), m.appended...)
	n.hist = append([]string(nil), m.hist...)
	n.syncedSize = map[uint64]int64{}
	for k, v := range m.syncedSize {
		n.syncedSize[k] = v
	}
	return n
}

// noteSegments records the first record index of segments seen for the first time.
func (m *model) noteSegments(sz map[uint64]int64) {
	if m.segFirst == nil {
		m.segFirst = map[uint64]int{}
	}
	for k := range sz {
		if _, ok := m.segFirst[k]; !ok {
			m.segFirst[k] = len(m.appended)
		}
	}
}

func (m *model) logf(format string, args ...interface{}) {
	m.hist = append(m.hist, fmt.Sprintf(format, args...))
}

func short(b []byte) string {
	if len(b) <= 24 {
		return hex.EncodeToString(b)
	}
	return hex.EncodeToString(b[:12]) + ".." + hex.EncodeToString(b[len(b)-4:])
}

// payload builds record number seq: content is a function of (salt, seq, n, kind)
// so that a witness can name it compactly.
func payload(salt int64, seq, n, kind int) []byte {
	p := make([]byte, n)
	switch kind {
	case 0: // pseudo-random
		rand.New(rand.NewSource(salt + int64(seq)*7919)).Read(p)
	case 1: // zeros (looks like an empty-record header)
	case 2:
		for i := range p {
			p[i] = 0xff
		}
	default: // looks like frames: embedded plausible headers
		for i := 0; i+8 <= n; i += 8 {
			binary.BigEndian.PutUint32(p[i:], uint32(seq))
			binary.BigEndian.PutUint32(p[i+4:], uint32(i%5))
		}
	}
	if n >= 4 {
		// make records distinct
		binary.BigEndian.PutUint16(p[0:], uint16(seq))
	} else if n > 0 {
		p[0] = byte(seq)
	}
	return p
}

// ---------------------------------------------------------------- files

func segPath(dir string, idx uint64) string {
	return filepath.Join(dir, walName+"_"+strconv.FormatUint(idx, 10))
}

type seg struct {
	idx  uint64
	data []byte
}

func listSegs(dir string) ([]seg, error) {
	ents, err := os.ReadDir(dir)
	if err != nil {
		return nil, err
	}
	var out []seg
	for _, e := range ents {
		if !strings.HasPrefix(e.Name(), walName+"_") {
			continue
		}
		idx, err := strconv.ParseUint(e.Name()[len(walName)+1:], 10, 64)
		if err != nil {
			continue
		}
		out = append(out, seg{idx: idx})
	}
	// oldest first: an older segment is complete once a newer one exists
	sort.Slice(out, func(i, j int) bool { return out[i].idx < out[j].idx })
	for i := range out {
		if out[i].data, err = os.ReadFile(segPath(dir, out[i].idx)); err != nil {
			if os.IsNotExist(err) && i == 0 && len(out) > 1 {
				// eldest segment removed by retention while listing: image without it
				out = out[1:]
				return listSegsRetry(dir, out)
			}
			return nil, err
		}
	}
	return out, nil
}

func listSegsRetry(dir string, _ []seg) ([]seg, error) { return listSegs(dir) }

func segSizes(dir string) (map[uint64]int64, error) {
	ents, err := os.ReadDir(dir)
	if err != nil {
		return nil, err
	}
	out := map[uint64]int64{}
	for _, e := range ents {
		if !strings.HasPrefix(e.Name(), walName+"_") {
			continue
		}
		idx, err := strconv.ParseUint(e.Name()[len(walName)+1:], 10, 64)
		if err != nil {
			continue
		}
		fi, err := e.Info()
		if err != nil {
			if os.IsNotExist(err) {
				continue // removed by retention between ReadDir and lstat
			}
			return nil, err
		}
		out[idx] = fi.Size()
	}
	return out, nil
}

func describeSizes(sz map[uint64]int64) string {
	var ks []uint64
	for k := range sz {
		ks = append(ks, k)
	}
	sort.Slice(ks, func(i, j int) bool { return ks[i] < ks[j] })
	var sb strings.Builder
	for _, k := range ks {
		fmt.Fprintf(&sb, "%s_%d:%d ", walName, k, sz[k])
	}
	return strings.TrimSpace(sb.String())
}

// image is the content of the WAL directory at a crash.
type image struct {
	segs []seg
	s, f int64 // truncation range of the newest segment
}

type crashPoint struct {
	keep     int64 // length of the newest segment that survives
	dropTail bool  // the (empty, just created) newest segment does not exist
	class    string
	segStart bool // tear inside the first record of a rotated (non-first) segment
}

// classify names the position of offset l in a file made of frames.
func classify(data []byte, l int64) string {
	o := int64(0)
	n := int64(len(data))
	for o < n {
		if l == o {
			return "frame-aligned"
		}
		if l < o+headerLen {
			return "in-header"
		}
		if o+headerLen > n {
			// the file itself ends inside a header (buffer boundary)
			return "in-header"
		}
		plen := int64(binary.BigEndian.Uint32(data[o+4 : o+8]))
		if l == o+headerLen && plen > 0 {
			return "header-complete-payload-empty"
		}
		if l < o+headerLen+plen {
			return "in-payload"
		}
		o += headerLen + plen
	}
	return "frame-aligned"
}

func firstFrameEnd(data []byte) int64 {
	if len(data) < headerLen {
		return int64(len(data)) + 1
	}
	return headerLen + int64(binary.BigEndian.Uint32(data[4:8]))
}

func isBoundaryClass(cp crashPoint, data []byte) bool {
	if cp.segStart || cp.dropTail || cp.class == "header-complete-payload-empty" || cp.class == "in-header" {
		return true
	}
	if cp.class == "frame-aligned" {
		return true
	}
	// first / last payload byte
	return classify(data, cp.keep-1) != "in-payload" || classify(data, cp.keep+1) != "in-payload"
}

func materialize(dir string, img *image, cp crashPoint) error {
	ents, err := os.ReadDir(dir)
	if err != nil {
		return err
	}
	for _, e := range ents {
		if err := os.Remove(filepath.Join(dir, e.Name())); err != nil {
			return err
		}
	}
	for i, s := range img.segs {
		d := s.data
		if i == len(img.segs)-1 {
			if cp.dropTail {
				continue
			}
			d = d[:cp.keep]
		}
		if err := os.WriteFile(segPath(dir, s.idx), d, 0600); err != nil {
			return err
		}
	}
	return nil
}

// ---------------------------------------------------------------- writer side

type writer struct {
	w   consensus.WALWriter
	dir string
	id  string
	cfg consensus.WALConfig
	m   *model
}

func idleCfg() consensus.WALConfig {
	return consensus.WALConfig{FileLimit: noLimit, TotalLimit: noLimit, HousekeepingInterval: never, SyncInterval: never}
}

func openWriter(dir string, cfg consensus.WALConfig, m *model) (*writer, error) {
	id := filepath.Join(dir, walName)
	w, err := consensus.OpenWALForWrite(id, &cfg)
	if err != nil {
		return nil, err
	}
	return &writer{w: w, dir: dir, id: id, cfg: cfg, m: m}, nil
}

func (x *writer) write(p []byte, kind int) error {
	_, err := x.w.WriteBytes(p)
	if err != nil {
		return err
	}
	x.m.logf("Write#%d len=%d kind=%d %s", len(x.m.appended), len(p), kind, short(p))
	x.m.appended = append(x.m.appended, p)
	x.m.nextSeq++
	return nil
}

func (x *writer) durable(op string) error {
	sz, err := segSizes(x.dir)
	if err != nil {
		return err
	}
	x.m.noteSegments(sz)
	x.m.synced = len(x.m.appended)
	x.m.syncedSize = sz
	x.m.logf("%s completed: synced=%d files[%s]", op, x.m.synced, describeSizes(sz))
	return nil
}

func (x *writer) sync() error {
	if err := x.w.Sync(); err != nil {
		return err
	}
	return x.durable("Sync")
}

// inflightSync is a Sync during which the process dies after the buffer was
// handed to the file and before fsync returned: nothing new is durable.
func (x *writer) inflightSync() error {
	if err := x.w.Sync(); err != nil {
		return err
	}
	x.m.logf("Sync in flight at the crash (bytes in the file, not durable)")
	return nil
}

func (x *writer) shift() error {
	sh, ok := x.w.(interface{ Shift() error })
	if !ok {
		return fmt.Errorf("writer has no Shift")
	}
	if err := sh.Shift(); err != nil {
		return err
	}
	return x.durable("Shift")
}

func (x *writer) close() error {
	return x.w.Close()
}

// awaitRotation waits (logical condition, generous watchdog) until the
// housekeeper has rotated a newest segment that exceeds FileLimit.
func (x *writer) awaitRotation(c *ev.Ctx) (bool, error) {
	if x.cfg.HousekeepingInterval >= never {
		return true, nil
	}
	deadline := time.Now().Add(30 * time.Second)
	for {
		sz, err := segSizes(x.dir)
		if err != nil {
			return false, err
		}
		var tail uint64
		for k := range sz {
			if k > tail {
				tail = k
			}
		}
		var total int64
		for _, v := range sz {
			total += v
		}
		if sz[tail] <= x.cfg.FileLimit && total <= x.cfg.TotalLimit {
			return true, nil
		}
		if time.Now().After(deadline) {
			return false, nil
		}
		time.Sleep(time.Millisecond)
	}
}

// ---------------------------------------------------------------- recovery (the protocol of consensus.applyRoundWAL)

type recovery struct {
	recs     [][]byte
	repaired bool
	endErr   string
	fatal    error // recovery itself failed (consensus would refuse to start)
	fatalOp  string
}

func recoverLikeConsensus(id string) (rc recovery) {
	wr, err := consensus.OpenWALForRead(id)
	if err != nil {
		if consensus.IsNotExist(err) {
			// applyWAL ignores IsNotExist: empty log
			rc.endErr = "not-exist"
			return
		}
		rc.fatal, rc.fatalOp = err, "open-for-read"
		return
	}
	defer func() {
		if err := wr.Close(); err != nil && rc.fatal == nil {
			rc.fatal, rc.fatalOp = err, "reader-close"
		}
	}()
	for {
		bs, err := wr.ReadBytes()
		if consensus.IsEOF(err) {
			rc.endErr = "EOF"
			break
		} else if consensus.IsCorruptedWAL(err) || consensus.IsUnexpectedEOF(err) {
			if consensus.IsCorruptedWAL(err) {
				rc.endErr = "corrupted"
			} else {
				rc.endErr = "unexpected-EOF"
			}
			if err := wr.CloseAndRepair(); err != nil {
				rc.fatal, rc.fatalOp = err, "close-and-repair"
				return
			}
			rc.repaired = true
			break
		} else if err != nil {
			rc.fatal, rc.fatalOp = err, "read"
			return
		}
		rc.recs = append(rc.recs, bs)
	}
	return
}

// ---------------------------------------------------------------- exploration

type explorer struct {
	c      *ev.Ctx
	r      *rand.Rand
	p      tierParams
	root   string
	salt   int64
	caseNo int
	// large > 0: the history contains one record of that payload length
	// (around wal.go's 2 MiB default FileLimit); exploration is then kept small
	large int
	// failedLineages counts lineages of this case that ended in a violation;
	// beyond a small budget the case stops (the keys are already recorded).
	failedLineages int
}

const maxFailedLineagesPerCase = 12

func (e *explorer) giveUp() bool {
	return e.c.Stopped() || e.failedLineages >= maxFailedLineagesPerCase
}

func (e *explorer) dirFor(depth int) (string, error) {
	d := filepath.Join(e.root, fmt.Sprintf("d%d", depth))
	return d, os.MkdirAll(d, 0700)
}

func (e *explorer) cause(cp crashPoint) string {
	switch {
	case cp.segStart:
		return "torn-first-record-of-rotated-segment"
	case cp.dropTail:
		return "rotated-segment-absent"
	case cp.class == "frame-aligned":
		return "frame-aligned-crash"
	default:
		return "torn-" + cp.class
	}
}

func lens(rs [][]byte) []int {
	out := make([]int, len(rs))
	for i, r := range rs {
		out[i] = len(r)
	}
	return out
}

func (e *explorer) witness(m *model, dir string, rc *recovery, extra map[string]interface{}) map[string]interface{} {
	w := map[string]interface{}{
		"case_seed":       e.c.CaseSeed(e.caseNo),
		"payload_salt":    e.salt,
		"lineage":         m.hist,
		"appended_lens":   lens(m.appended),
		"synced_records":  m.synced,
		"first_expected_record_index": m.base,
		"segment_first_record": fmt.Sprint(m.segFirst),
		"expectation":     "synced ⊑ recovered ⊑ appended (prefix order)",
		"payload_rule":    "payload(salt,seq,len,kind): kind 0 = math/rand stream seeded salt+seq*7919, 1 = zeros, 2 = 0xff, 3 = repeated (seq,i%5) words; first 2 bytes = seq",
		"recovery_method": "OpenWALForRead; ReadBytes until error; EOF=clean; corrupted/unexpected EOF=CloseAndRepair (as consensus.applyRoundWAL)",
	}
	if rc != nil {
		w["recovered_lens"] = lens(rc.recs)
		w["recovered_count"] = len(rc.recs)
		w["reader_ended_with"] = rc.endErr
		w["repaired"] = rc.repaired
		if rc.fatal != nil {
			w["recovery_error"] = rc.fatalOp + ": " + rc.fatal.Error()
		}
	}
	if sz, err := segSizes(dir); err == nil {
		w["files_after_recovery"] = describeSizes(sz)
	}
	for k, v := range extra {
		w[k] = v
	}
	return w
}

// check applies the oracle; it returns false when the lineage must stop.
func (e *explorer) check(m *model, dir string, rc *recovery, cause, phase string) (ok bool) {
	c := e.c
	c.Count("recoveries", 1)
	defer func() {
		if !ok {
			e.failedLineages++
		}
	}()
	if rc.fatal != nil {
		c.Violation("wal.recovery-failed."+rc.fatalOp+"."+cause, e.witness(m, dir, rc, map[string]interface{}{"phase": phase}))
		return false
	}
	if rc.repaired {
		c.Count("repairs", 1)
	}
	c.Count("reader_end_"+rc.endErr, 1)
	// recovered ⊑ appended (from the first record of the oldest surviving segment)
	if m.base > len(m.appended) {
		m.base = len(m.appended)
	}
	all := m.appended
	mAppended := all[m.base:]
	mSynced := m.synced - m.base
	if mSynced < 0 {
		mSynced = 0
	}
	for i, rec := range rc.recs {
		if i >= len(mAppended) {
				c.Violation("wal.recovered-record-never-appended."+cause, e.witness(m, dir, rc, map[string]interface{}{"phase": phase, "index": i, "record": short(rec)}))
			return false
		}
		if !bytes.Equal(rec, mAppended[i]) {
				c.Violation("wal.recovered-record-differs."+cause, e.witness(m, dir, rc, map[string]interface{}{"phase": phase, "index": i, "record": short(rec), "appended": short(mAppended[i])}))
			return false
		}
	}
	c.Count("records_recovered", len(rc.recs))
	for _, rec := range rc.recs {
		if len(rec) > twoMiB {
			c.Count("recoveries_over_large_record", 1)
		} else if len(rec) >= twoMiB-1 {
			c.Count("recoveries_over_record_at_2MiB_boundary", 1)
		}
	}
	// synced ⊑ recovered
	if len(rc.recs) < mSynced {
		c.Violation("wal.synced-record-lost."+cause, e.witness(m, dir, rc, map[string]interface{}{"phase": phase, "first_lost_index": m.base + len(rc.recs), "first_lost_record": short(mAppended[len(rc.recs)])}))
		return false
	}
	c.Count("synced_records_checked", mSynced)
	if len(rc.recs) < len(mAppended) {
		c.Count("unsynced_records_dropped", len(mAppended)-len(rc.recs))
	}
	if len(rc.recs) > mSynced {
		c.Count("unsynced_records_survived", len(rc.recs)-mSynced)
	}
	if m.base > 0 {
		c.Count("recoveries_after_retention_dropped_head", 1)
	}
	// what was not recovered is gone for the rest of the lineage
	m.appended = all[:m.base+len(rc.recs)]
	return true
}

const twoMiB = 2 * 1024 * 1024

func (e *explorer) prob(ps []float64, depth int) float64 {
	if depth < len(ps) {
		return ps[depth]
	}
	return 0
}

// crashPoints enumerates the crash images of a snapshot.
func (e *explorer) crashPoints(img *image, exhaustive bool) []crashPoint {
	tail := img.segs[len(img.segs)-1].data
	rotated := len(img.segs) > 1
	ffe := firstFrameEnd(tail)
	mk := func(l int64) crashPoint {
		cp := crashPoint{keep: l, class: classify(tail, l)}
		cp.segStart = rotated && l > 0 && l < ffe
		return cp
	}
	var out []crashPoint
	if !exhaustive {
		return []crashPoint{mk(img.f)}
	}
	t := img.f - img.s
	if t <= e.p.exhaustiveTo {
		for l := img.s; l <= img.f; l++ {
			out = append(out, mk(l))
		}
		e.c.Count("tails_byte_exhaustive", 1)
	} else {
		want := map[int64]bool{}
		// frame boundaries and buffer boundaries
		o := int64(0)
		for o <= int64(len(tail)) {
			for d := int64(-12); d <= 12; d++ {
				want[o+d] = true
			}
			if o+headerLen > int64(len(tail)) {
				break
			}
			o += headerLen + int64(binary.BigEndian.Uint32(tail[o+4:o+8]))
		}
		edge, rnd := int64(200), 200
		huge := t > 200000 // a multi-megabyte record in the tail: every image costs megabytes of I/O
		if huge {
			edge, rnd = 40, 40
		}
		for b := int64(0); b <= img.f+4096; b += 4096 {
			if huge && b > 8*4096 && b < img.f-8*4096 && b != twoMiB && b != twoMiB+4096 {
				continue
			}
			for d := int64(-3); d <= 3; d++ {
				want[b+d] = true
			}
		}
		for d := int64(0); d < edge; d++ {
			want[img.s+d] = true
			want[img.f-d] = true
		}
		for k := 0; k < rnd; k++ {
			want[img.s+e.r.Int63n(t+1)] = true
		}
		for l := range want {
			if l >= img.s && l <= img.f {
				out = append(out, mk(l))
			}
		}
		sort.Slice(out, func(i, j int) bool { return out[i].keep < out[j].keep })
		e.c.Count("tails_sampled_large", 1)
	}
	if img.s == 0 && rotated {
		out = append(out, crashPoint{keep: 0, dropTail: true, class: "frame-aligned"})
	}
	return out
}

// snapshot reads the directory of a writer that is still open.
func (e *explorer) snapshot(dir string, m *model) (*image, error) {
	segs, err := listSegs(dir)
	if err != nil {
		return nil, err
	}
	if len(segs) == 0 {
		return nil, fmt.Errorf("no segment files")
	}
	img := &image{segs: segs}
	tail := segs[len(segs)-1]
	img.f = int64(len(tail.data))
	img.s = m.syncedSize[tail.idx]
	if img.s > img.f {
		img.s = img.f
	}
	return img, nil
}

// explore recovers one crash image (already described by cp) and continues the lineage.
func (e *explorer) explore(img *image, cp crashPoint, m *model, depth int) {
	c := e.c
	if e.giveUp() {
		return
	}
	dir, err := e.dirFor(depth)
	if err != nil {
		c.Notef("harness: %v", err)
		return
	}
	if err := materialize(dir, img, cp); err != nil {
		c.Notef("harness: materialize: %v", err)
		return
	}
	tailIdx := img.segs[len(img.segs)-1].idx
	if v, ok := m.segFirst[img.segs[0].idx]; ok {
		m.base = v
	}
	if img.segs[0].idx > 0 {
		c.Count("images_head_index_gt0", 1)
	}
	if cp.dropTail {
		m.logf("CRASH#%d: newest segment %s_%d (empty, just created) absent", depth, walName, tailIdx)
		c.Count("images_rotated_segment_absent", 1)
	} else {
		m.logf("CRASH#%d: newest segment %s_%d keeps %d of %d bytes (synced %d) class=%s rotated-segment-start=%v segments=%d", depth, walName, tailIdx, cp.keep, img.f, img.s, cp.class, cp.segStart, len(img.segs))
	}
	c.Eval(1)
	c.Count("crash_images", 1)
	c.Count(fmt.Sprintf("depth_%d_images", depth), 1)
	c.Count("class_"+cp.class, 1)
	if cp.segStart {
		c.Count("images_tear_in_first_record_of_rotated_segment", 1)
	}
	if len(img.segs) > 1 && cp.keep == 0 && !cp.dropTail {
		c.Count("images_empty_rotated_segment", 1)
	}
	if len(img.segs) > 1 {
		c.Count("images_multi_segment", 1)
	}
	if cp.class != "frame-aligned" || cp.segStart || (len(img.segs) > 1 && cp.keep == 0) {
		c.NonTrivial(strings.Join(m.hist, "\n"))
	}
	cause := e.cause(cp)
	if m.blame != "" {
		cause = m.blame
	}
	id := filepath.Join(dir, walName)

	rc := recoverLikeConsensus(id)
	m.logf("RECOVER#%d: %d records, reader ended with %s, repaired=%v", depth, len(rc.recs), rc.endErr, rc.repaired)
	if rc.fatal == nil && !rc.repaired && !cp.dropTail && cp.class != "frame-aligned" {
		// observation only (the statement speaks about records): the reader did
		// not notice the partial frame
		c.Count("tears_read_as_clean_end", 1)
		if m.blame == "" {
			m.blame = "undetected-torn-" + cp.class
			m.logf("NOTE: partial frame read as clean end of log; it stays in the file")
		}
	}
	if !e.check(m, dir, &rc, cause, "recovery") {
		return
	}
	if rc.repaired && len(img.segs) > 1 {
		c.Count("repairs_multi_segment", 1)
	}
	if rc.repaired {
		// a crash right after the repair, nothing appended: reopen again
		rc2 := recoverLikeConsensus(id)
		m.logf("REOPEN#%d after repair: %d records, reader ended with %s, repaired=%v", depth, len(rc2.recs), rc2.endErr, rc2.repaired)
		c.Count("reopen_after_repair", 1)
		if rc2.repaired {
			c.Count("reopen_after_repair_repaired_again", 1)
		}
		if !e.check(m, dir, &rc2, cause, "reopen-after-repair") {
			return
		}
	}
	// file sizes known durable cannot exceed what is there now
	if sz, err := segSizes(dir); err == nil {
		for k, v := range m.syncedSize {
			cur, ok := sz[k]
			if !ok {
				delete(m.syncedSize, k)
			} else if cur < v {
				m.syncedSize[k] = cur
			}
		}
	}
	if sz, err := segSizes(dir); err == nil {
		for k := range m.segFirst {
			if _, ok := sz[k]; !ok {
				delete(m.segFirst, k)
			}
		}
		m.noteSegments(sz)
	}
	if depth >= e.p.maxDepth || (e.large > 0 && depth >= 2) {
		c.Count("lineages_completed", 1)
		return
	}

	// continuation: reopen for write as consensus.Start does, append, sync, crash again
	w, err := openWriter(dir, idleCfg(), m)
	if err != nil {
		c.Violation("wal.reopen-for-write-failed."+cause, e.witness(m, dir, &rc, map[string]interface{}{"error": err.Error()}))
		return
	}
	ok := func() bool {
		k1 := 1 + e.r.Intn(2)
		for i := 0; i < k1; i++ {
			if err := w.write(e.smallPayload(m), 0); err != nil {
				c.Notef("harness: write: %v", err)
				return false
			}
		}
		c.Count("appends_after_recovery", k1)
		if err := w.sync(); err != nil {
			c.Notef("harness: sync: %v", err)
			return false
		}
		if e.r.Intn(3) == 0 {
			if err := w.shift(); err != nil {
				c.Notef("harness: shift: %v", err)
				return false
			}
			c.Count("explicit_shifts", 1)
		}
		k2 := e.r.Intn(3)
		for i := 0; i < k2; i++ {
			if err := w.write(e.smallPayload(m), 0); err != nil {
				c.Notef("harness: write: %v", err)
				return false
			}
		}
		c.Count("appends_after_recovery", k2)
		if err := w.inflightSync(); err != nil {
			c.Notef("harness: sync: %v", err)
			return false
		}
		return true
	}()
	var next *image
	if ok {
		next, err = e.snapshot(dir, m)
		if err != nil {
			c.Notef("harness: snapshot: %v", err)
		}
	}
	if err := w.close(); err != nil {
		c.Notef("harness: close: %v", err)
	}
	if next == nil {
		return
	}
	var pr float64
	if isBoundaryClass(cp, img.segs[len(img.segs)-1].data) {
		pr = e.prob(e.p.deepBoundary, depth)
	} else {
		pr = e.prob(e.p.deepOther, depth)
	}
	deep := e.r.Float64() < pr && e.large == 0
	for _, ncp := range e.crashPoints(next, deep) {
		if e.giveUp() {
			return
		}
		e.explore(next, ncp, m.clone(), depth+1)
	}
}

var smallLens = []int{0, 1, 2, 3, 7, 8, 9, 15, 16, 17, 24, 33}

func (e *explorer) smallPayload(m *model) []byte {
	return payload(e.salt, m.nextSeq, smallLens[e.r.Intn(len(smallLens))], 0)
}

var boundaryLens = []int{0, 1, 2, 7, 8, 9, 16, 55, 56, 100, 255, 256}
var bigLens = []int{4079, 4080, 4081, 4087, 4088, 4089, 4096, 4097, 8184, 8192}

// history runs the level-0 history and returns the snapshot at the crash.
func (e *explorer) history(ci int) (*image, *model) {
	c, r := e.c, e.r
	m := &model{syncedSize: map[uint64]int64{}, segFirst: map[uint64]int{0: 0}} // the first segment of an empty directory is w_0
	dir, err := e.dirFor(0)
	if err != nil {
		c.Notef("harness: %v", err)
		return nil, nil
	}
	cfg := idleCfg()
	housekeeper := ci%3 == 2
	retention := ci%6 == 5 // housekeeper that also deletes the eldest segments (TotalLimit)
	if housekeeper {
		cfg.FileLimit = int64(64 + r.Intn(537))
		cfg.HousekeepingInterval = 10 * time.Millisecond
		if retention {
			cfg.FileLimit = int64(64 + r.Intn(137))
			cfg.TotalLimit = 2*cfg.FileLimit + int64(r.Intn(int(cfg.FileLimit)))
			// no timed sync: segment membership of a record must be known exactly
		} else if r.Intn(2) == 0 {
			cfg.SyncInterval = time.Millisecond
		}
	}
	m.logf("OPEN FileLimit=%d TotalLimit=%d housekeeping=%v syncInterval=%v", cfg.FileLimit, cfg.TotalLimit, cfg.HousekeepingInterval, cfg.SyncInterval)
	c.Note("history %d: housekeeper=%v retention=%v FileLimit=%d TotalLimit=%d salt=%d", ci, housekeeper, retention, cfg.FileLimit, cfg.TotalLimit, e.salt)
	w, err := openWriter(dir, cfg, m)
	if err != nil {
		c.Notef("harness: open: %v", err)
		return nil, nil
	}
	defer func() {
		if w != nil {
			if err := w.close(); err != nil {
				c.Notef("harness: close: %v", err)
			}
		}
	}()
	largeInTail := false
	if !housekeeper && ci%12 == 1 {
		k := (ci / 12) % 4
		e.large = []int{twoMiB + 1, 3 * 1024 * 1024, twoMiB, twoMiB - 1}[k]
		largeInTail = k == 1
	}
	bigLeft := 0
	if r.Intn(5) == 0 {
		bigLeft = 1 + r.Intn(2)
	}
	var maxIdx, minIdx uint64
	afterOp := func() bool {
		okRot, err := w.awaitRotation(c)
		if err != nil {
			c.Notef("harness: %v", err)
			return false
		}
		if !okRot {
			c.Count("rotation_wait_timeouts", 1)
			c.Notef("housekeeper did not rotate within the watchdog (machine overloaded?)")
			return false
		}
		sz, err := segSizes(dir)
		if err != nil {
			c.Notef("harness: %v", err)
			return false
		}
		m.noteSegments(sz)
		hi, lo := uint64(0), ^uint64(0)
		for k := range sz {
			if k > hi {
				hi = k
			}
			if k < lo {
				lo = k
			}
		}
		if hi > maxIdx {
			c.Count("housekeeper_rotations", int(hi-maxIdx))
			m.logf("housekeeper rotated: files[%s]", describeSizes(sz))
			maxIdx = hi
		}
		if len(sz) > 0 && lo > minIdx {
			c.Count("retention_removed_segments", int(lo-minIdx))
			m.logf("housekeeper removed the eldest segment(s): files[%s]; first record still in the log is #%d", describeSizes(sz), m.segFirst[lo])
			minIdx = lo
		}
		return true
	}
	doWrite := func() bool {
		var n int
		switch x := r.Intn(10); {
		case housekeeper && x == 9 && cfg.FileLimit < 4000:
			n = int(cfg.FileLimit) + []int{-8, 0, 1}[r.Intn(3)]
			c.Count("writes_of_filelimit_size", 1)
		case retention && x >= 2:
			n = 20 + r.Intn(110)
		case bigLeft > 0 && x < 3:
			n = bigLens[r.Intn(len(bigLens))]
			bigLeft--
		case x < 7:
			n = boundaryLens[r.Intn(len(boundaryLens))]
		default:
			n = r.Intn(130)
		}
		kind := 0
		if r.Intn(4) == 0 {
			kind = 1 + r.Intn(3)
		}
		p := payload(e.salt, m.nextSeq, n, kind)
		c.Note("write#%d len=%d kind=%d", m.nextSeq, n, kind)
		if err := w.write(p, kind); err != nil {
			c.Notef("harness: write: %v", err)
			return false
		}
		c.Count("history_writes", 1)
		return afterOp()
	}
	nOps := 2 + r.Intn(9)
	if retention {
		nOps = 14 + r.Intn(12) // enough bytes to exceed TotalLimit
	}
	writeLarge := func() bool {
		p := payload(e.salt, m.nextSeq, e.large, 0)
		c.Note("write#%d len=%d (large record)", m.nextSeq, e.large)
		if err := w.write(p, 0); err != nil {
			c.Notef("harness: write: %v", err)
			return false
		}
		c.Count("history_writes", 1)
		c.Count("histories_with_record_around_2MiB", 1)
		if e.large > twoMiB {
			c.Count("histories_with_record_over_2MiB", 1)
		}
		return afterOp()
	}
	if e.large > 0 && !largeInTail {
		// the large record becomes durable early; other synced records follow it
		for i := 0; i < r.Intn(3); i++ {
			if !doWrite() {
				return nil, nil
			}
		}
		if !writeLarge() {
			return nil, nil
		}
		if err := w.sync(); err != nil {
			c.Notef("harness: sync: %v", err)
			return nil, nil
		}
		if r.Intn(2) == 0 {
			if err := w.shift(); err != nil {
				c.Notef("harness: shift: %v", err)
				return nil, nil
			}
			c.Count("explicit_shifts", 1)
			maxIdx++
		}
		if !afterOp() {
			return nil, nil
		}
		nOps = 2 + r.Intn(4)
	}
	for i := 0; i < nOps; i++ {
		x := r.Intn(100)
		if retention && x >= 50 && x < 65 {
			x = 70 // more syncs: only bytes in the files drive rotation and retention
		}
		switch {
		case x < 60:
			if !doWrite() {
				return nil, nil
			}
		case x < 80:
			c.Note("sync")
			if err := w.sync(); err != nil {
				c.Notef("harness: sync: %v", err)
				return nil, nil
			}
			c.Count("history_syncs", 1)
			if !afterOp() {
				return nil, nil
			}
		case x < 92:
			c.Note("shift")
			if err := w.shift(); err != nil {
				c.Notef("harness: shift: %v", err)
				return nil, nil
			}
			c.Count("explicit_shifts", 1)
			maxIdx++
			if !afterOp() {
				return nil, nil
			}
		default:
			c.Note("close+reopen")
			if err := w.close(); err != nil {
				c.Notef("harness: close: %v", err)
				w = nil
				return nil, nil
			}
			w = nil
			if err := (&writer{dir: dir, m: m}).durable("Close"); err != nil {
				c.Notef("harness: %v", err)
				return nil, nil
			}
			c.Count("close_reopen_ops", 1)
			if sz, err := segSizes(dir); err == nil && len(sz) > 0 {
				lo := ^uint64(0)
				for k := range sz {
					if k < lo {
						lo = k
					}
				}
				m.base = m.segFirst[lo]
			}
			rc := recoverLikeConsensus(filepath.Join(dir, walName))
			m.logf("clean restart: %d records, reader ended with %s, repaired=%v", len(rc.recs), rc.endErr, rc.repaired)
			if !e.check(m, dir, &rc, "clean-close", "clean-restart") {
				return nil, nil
			}
			if rc.repaired {
						c.Violation("wal.repair-after-clean-close", e.witness(m, dir, &rc, nil))
				return nil, nil
			}
			w, err = openWriter(dir, cfg, m)
			if err != nil {
				w = nil
						c.Violation("wal.reopen-for-write-failed.clean-close", e.witness(m, dir, &rc, map[string]interface{}{"error": err.Error()}))
				return nil, nil
			}
			if !afterOp() {
				return nil, nil
			}
		}
	}
	// unsynced tail
	if e.large > 0 && largeInTail {
		if !writeLarge() {
			return nil, nil
		}
	}
	for i := 0; i < 1+r.Intn(4); i++ {
		if !doWrite() {
			return nil, nil
		}
	}
	if r.Intn(4) != 0 {
		c.Note("sync in flight")
		if err := w.inflightSync(); err != nil {
			c.Notef("harness: sync: %v", err)
			return nil, nil
		}
		if !afterOp() {
			return nil, nil
		}
	} else {
		m.logf("crash without a Sync in flight (only bytes the buffer already handed to the file exist)")
		c.Count("histories_without_inflight_sync", 1)
	}
	img, err := e.snapshot(dir, m)
	if err != nil {
		c.Notef("harness: snapshot: %v", err)
		return nil, nil
	}
	return img, m
}

func run(c *ev.Ctx) {
	log.GlobalLogger().SetLevel(log.FatalLevel)
	p := paramsFor(c.Tier)
	// once a case has used up its failure budget the remaining cases of the
	// batch are skipped: the violations are recorded, and a broken WAL can make
	// every further recovery very slow (garbage length fields allocate GBs)
	abortBatch := false
	c.Cases(func(ci int, r *rand.Rand) {
		if abortBatch {
			c.Count("cases_skipped_after_failures", 1)
			return
		}
		root, err := os.MkdirTemp("", "verif-c03-")
		if err != nil {
			c.Notef("harness: %v", err)
			return
		}
		defer os.RemoveAll(root)
		e := &explorer{c: c, r: r, p: p, root: root, salt: r.Int63n(1 << 40), caseNo: ci}
		img, m := e.history(ci)
		if img == nil {
			return
		}
		c.Count("histories", 1)
		if len(img.segs) > 1 {
			c.Count("histories_multi_segment", 1)
		}
		c.Count("tail_bytes_enumerated", int(img.f-img.s))
		pts := e.crashPoints(img, true)
		if e.large > 0 && len(pts) > 10 {
			// every image re-writes and re-reads megabytes, and the race detector's range
			// instrumentation costs ~0.3 s per 2 MB slice access: keep both ends and ~8 PRNG-chosen offsets
			var keep []crashPoint
			lim := 8
			if img.f-img.s > 200000 {
				lim = 4 // the large record itself is in the torn tail
			}
			for _, cp := range pts {
				if cp.keep == img.s || cp.keep == img.f || cp.dropTail || r.Intn(len(pts)) < lim {
					keep = append(keep, cp)
				}
			}
			pts = keep
			c.Count("level1_offsets_subsampled_for_large_record", 1)
		}
		if c.WantSample() {
			c.Sample(map[string]interface{}{"history": m.hist, "newest_segment_synced": img.s, "newest_segment_size": img.f, "crash_images_level1": len(pts)})
		}
		for _, cp := range pts {
			if e.giveUp() {
				break
			}
			e.explore(img, cp, m.clone(), 1)
		}
		if e.failedLineages >= maxFailedLineagesPerCase {
			abortBatch = true
		}
	})
}
