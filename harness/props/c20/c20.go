// Package c20: state sync rebuilds exactly the trusted state and stores
// nothing else (common/merkle builder, ompt Resolve, state
// NewWorldSnapshotWithBuilder, txresult NewReceiptListWithBuilder).
//
// Trace monitor over the merkle.Builder request/OnData loop. Sources (world
// states with nested storage tries, contract code and validators; plain
// MPTs; receipt lists with event-log tries) are flushed alone into their own
// recording database, so the database's contents are exactly the data the
// trusted root stands for. The harness then plays the syncer: it reads
// builder.Requests(), fetches true values from the source and delivers them
// through builder.OnData in a PRNG-chosen order, interleaved with hostile
// deliveries. Every single OnData call is decided by an independent rule
// (accept iff the bucket has a hasher and hasher(value) is outstanding for
// that hasher), the store is inspected after every call, completion is
// compared with UnresolvedCount()==0 after every call, and after
// Flush(true) the underlying target database must equal the source database
// entry by entry; the structure is then rebuilt from the trusted root over
// the target alone and compared with the model.
package c20

import (
	"bytes"
	"fmt"
	"math/rand"
	"strings"

	"github.com/icon-project/goloop/common/db"
	"github.com/icon-project/goloop/common/log"
	"github.com/icon-project/goloop/common/merkle"

	"verif/lib/ev"
	sm "verif/lib/state"
)

func init() {
	ev.Register(&ev.Prop{
		ID:    "C20",
		Level: "exploration",
		Cases: func(t string) int {
			if t == ev.Thorough {
				return 40000
			}
			return 640
		},
		Batches: func(t string) int {
			if t == ev.Thorough {
				return 32
			}
			return 16
		},
		Rule: "each case = one sync of 1-2 trusted roots (world state built by 5-65 random account operations + up to 45 filler accounts sharing storage templates + (1 world in 3) contracts whose code is byte-identical to a storage-trie node, so one hash is needed in MerkleTrie and BytesByHash and both requests merge + optional validator list; plain MPT with 0-150 keys; receipt list with event-log tries) into an empty target through merkle.NewBuilder (layered) or NewBuilderWithRawDatabase, requests served in fifo-window/lifo/random order with the bucket id chosen as sync2 (BucketIDs()[0]), sync v1 (always BytesByHash) or swapped, the second root attached after some deliveries, and hostile deliveries interleaved: duplicates, values of foreign tries, premature true values (not yet requested), bit flips, truncation/extension, random and empty values, true values under buckets without hasher or with another hasher. In 1 of 3 layered syncs the k-th write of Flush(true) to the backing store fails once (k = 1, last or random) and Flush is retried as a caller would; the store comparison is made once Flush reports success. Non-trivial = distinct sync (hash of its delivery log) that completed with >= 8 accepted values, >= 1 nested value (storage trie node, code, validator list, event log node) and >= 3 different hostile classes delivered.",
		MinNonTrivial: func(t string) int {
			if t == ev.Thorough {
				return 12000
			}
			return 200
		},
		Required: []string{"accepted", "rejected_duplicate", "rejected_foreign", "rejected_premature", "rejected_bitflip",
			"rejected_nohasher-bucket", "rejected_other-hasher-bucket", "accepted_swapped-bucket", "syncs_completed",
			"target_equals_source", "late_attach", "multi_requester_requests", "raw_builder_syncs", "layered_builder_syncs",
			"merged_two_bucket_requests", "merged_first_bucket_trie", "merged_first_bucket_bytes",
			"flush_write_faults_injected", "flush_retries_succeeded"},
		Assumptions: []string{
			"a structure flushed alone into a fresh database leaves exactly its own data there (flush writes reachable nodes only; checked by C17/C14 paths)",
			"MapDB behind the recording wrapper is a faithful store",
			"SHA3-256 preimage resistance: 'forged' = values whose hash is not outstanding",
			"sync2's network/processor layer is not driven; the harness delivers to Builder.OnData exactly as syncProcessor.HandleData and sync v1 _onNodeData do",
		},
		TimeoutSec: func(t string) int {
			if t == ev.Thorough {
				return 7200
			}
			return 600
		},
		Run: run,
	})
}

var sha3Buckets = []db.BucketID{db.MerkleTrie, db.BytesByHash}
var noHasherBuckets = []db.BucketID{db.TransactionLocatorByHash, db.BlockHeaderHashByHeight, db.ChainProperty, "zz"}

// buckets that have a hasher other than the one used by state data (registered by btp/ntm)
func otherHasherBuckets() []db.BucketID {
	var out []db.BucketID
	for _, id := range []db.BucketID{"eS", "iS", "eL", "iL"} {
		if h := id.Hasher(); h != nil && h.Name() != db.MerkleTrie.Hasher().Name() {
			out = append(out, id)
		}
	}
	return out
}

type req struct {
	key  []byte
	bids []db.BucketID
}

type syncer struct {
	c       *ev.Ctx
	r       *rand.Rand
	target  *sm.RecDB
	b       merkle.Builder
	raw     bool
	needed  map[string][]byte   // union over attached sources: entry key -> value
	missing map[string]struct{} // needed entries not yet in the target view
	done    [][]byte            // accepted values (for duplicates)
	doneKey map[string]bool
	decoy   [][]byte
	log     []string
	failed  bool
	classes map[string]bool
	nAccept int
	nNested int
	srcs    []*source
}

func (s *syncer) logf(f string, a ...interface{}) { s.log = append(s.log, fmt.Sprintf(f, a...)) }

func (s *syncer) violation(key string, extra map[string]interface{}) {
	s.failed = true
	w := map[string]interface{}{"deliveries": append([]string(nil), s.log...), "raw_builder": s.raw}
	var roots []string
	for _, src := range s.srcs {
		roots = append(roots, src.kind+":"+hx(src.root))
	}
	w["roots"] = roots
	for k, v := range extra {
		w[k] = v
	}
	s.c.Violation(key, w)
}

func (s *syncer) scan() ([]req, map[string]*req) {
	var list []req
	m := map[string]*req{}
	for it := s.b.Requests(); it.Next(); {
		q := req{key: append([]byte(nil), it.Key()...), bids: append([]db.BucketID(nil), it.BucketIDs()...)}
		list = append(list, q)
	}
	for i := range list {
		q := &list[i]
		if len(q.bids) == 0 {
			continue
		}
		m[q.bids[0].Hasher().Name()+"/"+string(q.key)] = q
	}
	return list, m
}

func (s *syncer) has(bid db.BucketID, key []byte) bool {
	bk, err := s.b.Database().GetBucket(bid)
	if err != nil {
		panic(err)
	}
	ok, err := bk.Has(key)
	if err != nil {
		panic(err)
	}
	return ok
}

func sameReqs(a, b []req) bool {
	if len(a) != len(b) {
		return false
	}
	for i := range a {
		if !bytes.Equal(a[i].key, b[i].key) || len(a[i].bids) != len(b[i].bids) {
			return false
		}
	}
	return true
}

// deliver makes one OnData call and decides it.
func (s *syncer) deliver(bid db.BucketID, value []byte, class string) {
	c := s.c
	before, idx := s.scan()
	hasher := bid.Hasher()
	var key []byte
	var q *req
	if hasher != nil {
		key = hasher.Hash(value)
		q = idx[hasher.Name()+"/"+string(key)]
	}
	var sha3key []byte = db.MerkleTrie.Hasher().Hash(value)
	hadBefore := map[db.BucketID]bool{}
	for _, b := range sha3Buckets {
		hadBefore[b] = s.has(b, sha3key)
	}
	vshow := value
	if len(vshow) > 48 {
		vshow = vshow[:48]
	}
	s.logf("%s bid=%q len=%d value=%x.. expect_accept=%v", class, string(bid), len(value), vshow, q != nil)
	c.Note("OnData %s bid=%q value=%x", class, string(bid), value)
	s.classes[class] = true
	// a private copy: requesters keep references to the delivered slice
	err := s.b.OnData(bid, append([]byte(nil), value...))
	c.Eval(1)
	after, _ := s.scan()
	wit := map[string]interface{}{"class": class, "bucket": string(bid), "value": hx(value), "err": fmt.Sprint(err)}
	if s.b.UnresolvedCount() != len(after) {
		s.violation("requests.count-mismatch", map[string]interface{}{"unresolved": s.b.UnresolvedCount(), "iterated": len(after)})
		return
	}
	if q == nil {
		// not requested: must be refused and leave no trace
		if err == nil {
			s.violation("ondata.accepts-unrequested."+class, wit)
			return
		}
		c.Count("rejected", 1)
		c.Count("rejected_"+class, 1)
		if !sameReqs(before, after) {
			s.violation("requests.changed-by-rejected-delivery."+class, wit)
			return
		}
		for _, b := range sha3Buckets {
			if s.has(b, sha3key) != hadBefore[b] {
				wit["stored_in_bucket"] = string(b)
				s.violation("store.unrequested-data."+class, wit)
				return
			}
		}
		if hasher != nil && !bytes.Equal(key, sha3key) {
			for _, b := range sha3Buckets {
				if s.has(b, key) {
					s.violation("store.unrequested-data."+class, wit)
					return
				}
			}
		}
		return
	}
	// requested: must be accepted, stored in exactly the requested buckets, and resolved
	if err != nil {
		s.violation("ondata.rejects-requested."+class, wit)
		return
	}
	c.Count("accepted", 1)
	c.Count("accepted_"+class, 1)
	s.nAccept++
	if len(q.bids) > 1 {
		c.Count("multi_requester_deliveries", 1)
	}
	for _, a := range after {
		if bytes.Equal(a.key, key) {
			s.violation("requests.still-outstanding-after-accept", wit)
			return
		}
	}
	requested := map[db.BucketID]bool{}
	for _, b := range q.bids {
		requested[b] = true
		bk, _ := s.b.Database().GetBucket(b)
		got, gerr := bk.Get(key)
		if gerr != nil || !bytes.Equal(got, value) {
			wit["bucket_checked"] = string(b)
			s.violation("store.requested-data-missing", wit)
			return
		}
		ek := sm.EntryKey(b, key)
		if want, ok := s.needed[ek]; !ok {
			wit["bucket_checked"] = string(b)
			s.violation("request.unknown-to-source", wit)
			return
		} else if !bytes.Equal(want, value) {
			panic("harness: delivered value differs from source value")
		}
		delete(s.missing, ek)
	}
	for _, b := range sha3Buckets {
		if !requested[b] && !hadBefore[b] && s.has(b, key) {
			wit["stored_in_bucket"] = string(b)
			s.violation("store.unrequested-bucket", wit)
			return
		}
	}
	s.done = append(s.done, value)
	s.doneKey[string(key)] = true
}

// checkCompletion compares "no outstanding requests" with "the local store
// holds the complete state" (both directions).
func (s *syncer) checkCompletion() {
	u := s.b.UnresolvedCount()
	s.c.Count("completion_checks", 1)
	if u == 0 && len(s.missing) > 0 {
		var some []string
		for _, ek := range sm.SortedKeys(toBytesMap(s.missing)) {
			bid, k := sm.SplitEntryKey(ek)
			some = append(some, fmt.Sprintf("%q/%x", string(bid), k))
			if len(some) >= 5 {
				break
			}
		}
		s.violation("complete.unresolved-zero-while-incomplete", map[string]interface{}{"missing_entries": len(s.missing), "some_missing": some})
	} else if u > 0 && len(s.missing) == 0 {
		s.violation("complete.unresolved-nonzero-while-complete", map[string]interface{}{"unresolved": u})
	}
}

func toBytesMap(m map[string]struct{}) map[string][]byte {
	o := make(map[string][]byte, len(m))
	for k := range m {
		o[k] = nil
	}
	return o
}

func (s *syncer) attach(src *source) func() []string {
	for ek, v := range src.needed {
		if _, ok := s.needed[ek]; !ok {
			s.needed[ek] = v
			bid, k := sm.SplitEntryKey(ek)
			if !s.has(bid, k) {
				s.missing[ek] = struct{}{}
			}
		}
	}
	s.srcs = append(s.srcs, src)
	s.logf("attach %s root=%x entries=%d", src.kind, src.root, len(src.needed))
	obs, err := src.attach(s.b)
	if err != nil {
		s.violation("attach.error", map[string]interface{}{"err": err.Error()})
		return nil
	}
	return obs
}

// isTwin tells whether the trusted data holds the key in both sha3 buckets.
func (s *syncer) isTwin(key []byte) bool {
	_, a := s.needed[sm.EntryKey(db.MerkleTrie, key)]
	_, b := s.needed[sm.EntryKey(db.BytesByHash, key)]
	return a && b
}

func flipBit(r *rand.Rand, v []byte) []byte {
	o := append([]byte(nil), v...)
	if len(o) == 0 {
		return []byte{1}
	}
	o[r.Intn(len(o))] ^= 1 << uint(r.Intn(8))
	return o
}

// hostile makes one hostile delivery of a PRNG-chosen class.
func (s *syncer) hostile() {
	r := s.r
	list, _ := s.scan()
	var outstandingValue []byte
	var outstandingBid db.BucketID
	if len(list) > 0 {
		q := list[r.Intn(len(list))]
		outstandingValue, outstandingBid = s.fetch(q)
		if s.failed {
			return
		}
	}
	other := otherHasherBuckets()
	switch k := r.Intn(12); {
	case k == 0 && len(s.done) > 0:
		s.deliver(sha3Buckets[r.Intn(2)], s.done[r.Intn(len(s.done))], "duplicate")
	case k == 1 && len(s.done) > 0:
		// the most recent one again (what a slow second peer would send)
		s.deliver(sha3Buckets[r.Intn(2)], s.done[len(s.done)-1], "duplicate")
	case k == 2 && len(s.decoy) > 0:
		s.deliver(sha3Buckets[r.Intn(2)], s.decoy[r.Intn(len(s.decoy))], "foreign")
	case k == 3:
		// a true value of the trusted structure that has not been requested yet
		cands := sm.SortedKeys(toBytesMap(s.missing))
		if len(cands) == 0 {
			return
		}
		_, idx := s.scan()
		for try := 0; try < 8; try++ {
			ek := cands[r.Intn(len(cands))]
			bid, key := sm.SplitEntryKey(ek)
			if idx[bid.Hasher().Name()+"/"+string(key)] == nil {
				s.deliver(bid, s.needed[ek], "premature")
				return
			}
		}
	case k == 4 && outstandingValue != nil:
		s.deliver(outstandingBid, flipBit(r, outstandingValue), "bitflip")
	case k == 5 && outstandingValue != nil:
		if r.Intn(2) == 0 && len(outstandingValue) > 1 {
			s.deliver(outstandingBid, outstandingValue[:len(outstandingValue)-1], "truncated")
		} else {
			s.deliver(outstandingBid, append(append([]byte(nil), outstandingValue...), byte(r.Intn(256))), "extended")
		}
	case k == 6:
		v := make([]byte, r.Intn(100))
		r.Read(v)
		if r.Intn(4) == 0 {
			v = nil
		}
		s.deliver(sha3Buckets[r.Intn(2)], v, "random")
	case k == 7 && outstandingValue != nil:
		s.deliver(noHasherBuckets[r.Intn(len(noHasherBuckets))], outstandingValue, "nohasher-bucket")
	case k == 8 && outstandingValue != nil && len(other) > 0:
		s.deliver(other[r.Intn(len(other))], outstandingValue, "other-hasher-bucket")
	case k == 9 && len(s.done) > 0:
		s.deliver(sha3Buckets[r.Intn(2)], flipBit(r, s.done[r.Intn(len(s.done))]), "bitflip")
	case k == 10 && outstandingValue != nil:
		// the requested hash itself instead of its preimage
		s.deliver(outstandingBid, db.MerkleTrie.Hasher().Hash(outstandingValue), "hash-as-value")
	case k == 11 && len(s.decoy) > 0:
		s.deliver(noHasherBuckets[r.Intn(len(noHasherBuckets))], s.decoy[r.Intn(len(s.decoy))], "nohasher-bucket")
	}
}

// fetch finds the true value of a request in the attached sources, the way
// a serving peer does (bucket by bucket).
func (s *syncer) fetch(q req) ([]byte, db.BucketID) {
	for _, b := range q.bids {
		if v, ok := s.needed[sm.EntryKey(b, q.key)]; ok {
			return v, b
		}
	}
	for _, b := range sha3Buckets {
		if v, ok := s.needed[sm.EntryKey(b, q.key)]; ok {
			return v, b
		}
	}
	s.violation("request.unknown-to-source", map[string]interface{}{"key": hx(q.key), "buckets": fmt.Sprint(q.bids)})
	return nil, ""
}

func run(c *ev.Ctx) {
	log.GlobalLogger().SetLevel(log.FatalLevel)
	c.Cases(func(ci int, r *rand.Rand) {
		// sources
		mk := func() *source {
			switch k := r.Intn(10); {
			case k < 6:
				return buildWorld(r)
			case k < 8:
				return buildMPT(r)
			default:
				return buildReceipts(r)
			}
		}
		srcs := []*source{mk()}
		if r.Intn(3) == 0 {
			srcs = append(srcs, mk())
		}
		decoySrc := mk()
		s := &syncer{c: c, r: r, target: sm.NewRecDB(), needed: map[string][]byte{}, missing: map[string]struct{}{},
			doneKey: map[string]bool{}, classes: map[string]bool{}}
		for _, ek := range sm.SortedKeys(decoySrc.needed) {
			s.decoy = append(s.decoy, decoySrc.needed[ek])
		}
		s.decoy = append(s.decoy, []byte("not a node"), bytes.Repeat([]byte{0xc0}, 40))
		s.raw = r.Intn(3) == 0
		if s.raw {
			s.b = merkle.NewBuilderWithRawDatabase(s.target)
			c.Count("raw_builder_syncs", 1)
		} else {
			s.b = merkle.NewBuilder(s.target)
			c.Count("layered_builder_syncs", 1)
		}
		order := r.Intn(3)     // 0 fifo window, 1 lifo, 2 random
		bidMode := r.Intn(3)   // 0 sync2: BucketIDs()[0]; 1 sync v1: always BytesByHash; 2 the other sha3 bucket
		hostileP := r.Intn(70) // percent
		deferTwins := r.Intn(3) != 0
		kinds := ""
		for _, src := range srcs {
			kinds += src.kind + ","
		}
		c.Note("sources=%s raw=%v order=%d bidMode=%d hostile=%d%%", kinds, s.raw, order, bidMode, hostileP)
		s.logf("builder raw=%v order=%d bidMode=%d", s.raw, order, bidMode)

		var observers []func() []string
		if o := s.attach(srcs[0]); o != nil {
			observers = append(observers, o)
		}
		pending := srcs[1:]
		lateAfter := 1 + r.Intn(12)
		steps, maxSteps := 0, 0
		for _, src := range srcs {
			maxSteps += 6*len(src.needed) + 200
		}
		for !s.failed && !c.Stopped() {
			s.checkCompletion()
			if s.failed {
				return
			}
			if len(pending) > 0 && (s.nAccept >= lateAfter || s.b.UnresolvedCount() == 0) {
				// a second root attached to a builder that already handled deliveries
				if o := s.attach(pending[0]); o != nil {
					observers = append(observers, o)
				}
				pending = pending[1:]
				if s.nAccept > 0 {
					c.Count("late_attach", 1)
				}
				continue
			}
			list, _ := s.scan()
			if len(list) == 0 {
				break
			}
			if steps++; steps > maxSteps {
				s.violation("sync.does-not-terminate", map[string]interface{}{"steps": steps, "unresolved": len(list)})
				return
			}
			for r.Intn(100) < hostileP && !s.failed {
				s.hostile()
			}
			if s.failed {
				return
			}
			list, _ = s.scan()
			if deferTwins {
				// hold back a value that is needed in two buckets until both
				// requests are outstanding together (they then merge into one)
				var keep []req
				for _, q := range list {
					if s.isTwin(q.key) && len(q.bids) < 2 {
						continue
					}
					keep = append(keep, q)
				}
				if len(keep) > 0 {
					list = keep
				}
			}
			if len(list) == 0 {
				// a "hostile" delivery happened to carry the last outstanding value
				continue
			}
			var q req
			switch order {
			case 0:
				w := len(list)
				if w > 8 {
					w = 8
				}
				q = list[r.Intn(w)]
			case 1:
				q = list[len(list)-1]
			default:
				q = list[r.Intn(len(list))]
			}
			if len(q.bids) > 1 {
				c.Count("multi_requester_requests", 1)
				for _, b := range q.bids[1:] {
					if b != q.bids[0] {
						c.Count("merged_two_bucket_requests", 1)
						c.Count("merged_first_bucket_"+map[db.BucketID]string{db.MerkleTrie: "trie", db.BytesByHash: "bytes"}[q.bids[0]], 1)
						break
					}
				}
			}
			v, srcBid := s.fetch(q)
			if s.failed {
				return
			}
			bid, class := q.bids[0], "honest"
			switch bidMode {
			case 1:
				bid = db.BytesByHash
			case 2:
				if r.Intn(2) == 0 {
					if bid == db.MerkleTrie {
						bid = db.BytesByHash
					} else {
						bid = db.MerkleTrie
					}
				}
			}
			if bid != q.bids[0] {
				class = "swapped-bucket"
			}
			if srcBid != db.MerkleTrie {
				s.nNested++
			}
			s.deliver(bid, v, class)
		}
		if s.failed || c.Stopped() {
			return
		}
		s.checkCompletion()
		// after completion everything is unrequested
		for i := 0; i < 6 && !s.failed; i++ {
			s.hostile()
		}
		if s.failed {
			return
		}
		// the objects handed out by the builder-based constructors are complete
		for _, o := range observers {
			if d := o(); len(d) > 0 {
				s.violation("builder-object.differs", map[string]interface{}{"diffs": d})
				return
			}
		}
		// Fault point: a transient write error of the backing store in the
		// middle of Flush(true); the caller (sync Finalize) retries. Nothing
		// is claimed while Flush reports an error; once it reports success
		// the real store must hold the complete state.
		if !s.raw && len(s.needed) > 0 && r.Intn(3) == 0 {
			k := 1 + r.Intn(len(s.needed))
			switch r.Intn(4) {
			case 0:
				k = 1
			case 1:
				k = len(s.needed)
			}
			s.target.FailSetAfter(k)
			s.logf("arm write fault at Set #%d of %d", k, len(s.needed))
		}
		flushed := false
		for attempt := 1; attempt <= 4; attempt++ {
			err := s.b.Flush(true)
			s.logf("Flush(true) attempt %d -> %v (store entries %d)", attempt, err, s.target.Len())
			if err == nil {
				flushed = true
				if attempt > 1 {
					c.Count("flush_retries_succeeded", 1)
				}
				break
			}
			if err != sm.ErrInjected && s.target.Faults() == 0 {
				s.violation("flush.error", map[string]interface{}{"err": err.Error()})
				return
			}
			c.Count("flush_errors_reported", 1)
		}
		if s.target.Faults() > 0 {
			c.Count("flush_write_faults_injected", 1)
		}
		s.target.FailSetAfter(0)
		if !flushed {
			s.violation("flush.never-succeeds-after-transient-fault", map[string]interface{}{"faults": s.target.Faults()})
			return
		}
		c.Count("syncs_completed", 1)
		// "stores nothing else": the underlying target equals the source, entry by entry
		got := s.target.Entries()
		for _, ek := range sm.SortedKeys(got) {
			bid, k := sm.SplitEntryKey(ek)
			want, ok := s.needed[ek]
			if !ok {
				s.violation("target.extra-data", map[string]interface{}{"bucket": string(bid), "key": hx(k), "value": hx(got[ek])})
				return
			}
			if !bytes.Equal(want, got[ek]) {
				s.violation("target.value-differs", map[string]interface{}{"bucket": string(bid), "key": hx(k), "value": hx(got[ek]), "want": hx(want)})
				return
			}
		}
		for _, ek := range sm.SortedKeys(s.needed) {
			if _, ok := got[ek]; !ok {
				bid, k := sm.SplitEntryKey(ek)
				s.violation("target.missing-data", map[string]interface{}{"bucket": string(bid), "key": hx(k)})
				return
			}
		}
		c.Count("target_equals_source", 1)
		c.Count("target_entries", len(got))
		// rebuilt from the trusted root over the target alone
		for _, src := range srcs {
			if d := src.verify(s.target); len(d) > 0 {
				s.violation("rebuilt.differs."+src.kind, map[string]interface{}{"diffs": d})
				return
			}
			c.Count("rebuilt_"+src.kind, 1)
			if src.root == nil {
				c.Count("empty_roots", 1)
			}
		}
		if s.target.Len() != len(s.needed) {
			s.violation("target.extra-data", map[string]interface{}{"entries": s.target.Len(), "want": len(s.needed), "when": "after reading the rebuilt state"})
			return
		}
		hostileClasses := 0
		for cl := range s.classes {
			if cl != "honest" && cl != "swapped-bucket" {
				hostileClasses++
			}
		}
		if s.nAccept >= 8 && s.nNested >= 1 && hostileClasses >= 3 {
			c.NonTrivial(strings.Join(s.log, "\n"))
		}
		if c.WantSample() {
			n := len(s.log)
			if n > 30 {
				n = 30
			}
			c.Sample(map[string]interface{}{"case": ci, "sources": kinds, "entries": len(s.needed), "accepted": s.nAccept,
				"deliveries": len(s.log), "first_deliveries": s.log[:n]})
		}
	})
}
