package c20

import (
	"bytes"
	"encoding/hex"
	"encoding/json"
	"fmt"
	"math/big"
	"math/rand"
	"sort"

	"github.com/icon-project/goloop/common"
	"github.com/icon-project/goloop/common/crypto"
	"github.com/icon-project/goloop/common/db"
	"github.com/icon-project/goloop/common/merkle"
	"github.com/icon-project/goloop/common/trie/trie_manager"
	"github.com/icon-project/goloop/module"
	ss "github.com/icon-project/goloop/service/state"
	"github.com/icon-project/goloop/service/txresult"

	sm "verif/lib/state"
)

// source is one trusted structure, flushed alone into its own database, so
// that the database's contents are exactly the data the structure consists of.
type source struct {
	kind   string
	db     *sm.RecDB
	root   []byte
	needed map[string][]byte
	twins  bool // contains values needed in two buckets at once
	nested int  // entries outside the top-level trie (storage tries, code, validators, event logs)

	// attach registers the structure with the builder (as the real syncers do)
	// and returns a function that observes the object the builder handed out.
	attach func(b merkle.Builder) (func() []string, error)
	// verify rebuilds the structure from the trusted root over raw alone.
	verify func(raw db.Database) []string
}

type extraAcc struct {
	id      []byte
	balance *big.Int
	tmpl    int
	code    []byte // pending contract code (twin accounts)
}

// templateNodes returns the serialized hashed nodes of the storage trie that
// a filler account with the given template has.
func templateNodes(tmpl int) [][]byte {
	scratch := sm.NewRecDB()
	m := trie_manager.NewMutable(scratch, nil)
	for _, kv := range templates[tmpl] {
		if _, err := m.Set(kv[0], kv[1]); err != nil {
			panic(err)
		}
	}
	snap := m.GetSnapshot()
	if err := snap.Flush(); err != nil {
		panic(err)
	}
	ent := scratch.Entries()
	var out [][]byte
	for _, ek := range sm.SortedKeys(ent) {
		out = append(out, ent[ek])
	}
	return out
}

// storage templates shared by several filler accounts: identical storage
// tries give identical node hashes requested by more than one requester.
var templates = [][][2][]byte{
	nil,
	{{[]byte("k1"), []byte("v1")}},
	{{[]byte("k1"), bytes.Repeat([]byte{0xaa}, 40)}, {[]byte("k2"), bytes.Repeat([]byte{0xbb}, 40)}, {[]byte("l"), []byte("short")}},
	nil, // filled in init: 24 entries
}

func init() {
	var t [][2][]byte
	for i := 0; i < 24; i++ {
		k := crypto.SHA3Sum256([]byte{byte(i)})
		t = append(t, [2][]byte{k[:1+i%8], bytes.Repeat([]byte{byte(i)}, 20+i*3)})
	}
	templates[3] = t
}

func buildWorld(r *rand.Rand) *source {
	src := &source{kind: "world", db: sm.NewRecDB()}
	var vals []module.Validator
	var valAddrs []string
	if r.Intn(2) == 0 {
		for i := 0; i < 1+r.Intn(4); i++ {
			a := common.NewAccountAddress(bytes.Repeat([]byte{byte(0xc0 + i)}, 20))
			v, err := ss.ValidatorFromAddress(a)
			if err != nil {
				panic(err)
			}
			vals = append(vals, v)
			valAddrs = append(valAddrs, a.String())
		}
	}
	var vss ss.ValidatorSnapshot
	if len(vals) > 0 {
		var err error
		if vss, err = ss.ValidatorSnapshotFromSlice(src.db, vals); err != nil {
			panic(err)
		}
	}
	ws := ss.NewWorldState(src.db, nil, vss, nil, nil)
	model := sm.NewWorld()
	nops := 5 + r.Intn(60)
	for i := 0; i < nops; i++ {
		o := sm.GenOp(r, model)
		want := model.Apply(o)
		got := sm.ApplyReal(ws, o)
		if !want.Equal(got) {
			panic(fmt.Sprintf("harness: source world: op %s: model %s real %s", o, want, got))
		}
	}
	var extras []extraAcc
	for i, n := 0, r.Intn(4)*r.Intn(16); i < n; i++ {
		id := make([]byte, 20)
		r.Read(id)
		e := extraAcc{id: id, balance: big.NewInt(int64(1 + r.Intn(3))), tmpl: r.Intn(len(templates))}
		if r.Intn(4) == 0 {
			e.balance = new(big.Int).Lsh(big.NewInt(1), uint(r.Intn(200)))
		}
		as := ws.GetAccountState(id)
		as.SetBalance(e.balance)
		for _, kv := range templates[e.tmpl] {
			if _, err := as.SetValue(kv[0], kv[1]); err != nil {
				panic(err)
			}
		}
		extras = append(extras, e)
	}
	// "twins": the same bytes needed in two buckets that share the sha3
	// hasher — a contract whose code is byte-identical to a serialized
	// storage-trie node of another account (MerkleTrie node + BytesByHash code).
	if r.Intn(3) == 0 {
		tmpl := 2 + r.Intn(2)
		nodes := templateNodes(tmpl)
		holder := make([]byte, 20)
		r.Read(holder)
		e := extraAcc{id: holder, balance: big.NewInt(7), tmpl: tmpl}
		as := ws.GetAccountState(holder)
		as.SetBalance(e.balance)
		for _, kv := range templates[tmpl] {
			if _, err := as.SetValue(kv[0], kv[1]); err != nil {
				panic(err)
			}
		}
		extras = append(extras, e)
		for j, n := 0, 1+r.Intn(2); j < n; j++ {
			id := make([]byte, 20)
			r.Read(id)
			t := extraAcc{id: id, balance: big.NewInt(9), code: nodes[r.Intn(len(nodes))]}
			ts := ws.GetAccountState(id)
			ts.SetBalance(t.balance)
			ts.InitContractAccount(sm.Owners[0])
			if _, err := ts.DeployContract(t.code, ss.JavaEE, ss.CTAppJava, nil, crypto.SHA3Sum256(id)); err != nil {
				panic(err)
			}
			extras = append(extras, t)
		}
		src.twins = true
	}
	wss := ws.GetSnapshot()
	if err := wss.Flush(); err != nil {
		panic(err)
	}
	src.root = wss.StateHash()
	vh := wss.GetValidatorSnapshot().Hash()
	src.needed = src.db.Entries()

	expectedKeys := map[string]bool{}
	for i, a := range model.Acc {
		if !a.IsEmpty() {
			expectedKeys[string(crypto.SHA3Sum256(sm.IDs[i]))] = true
		}
	}
	for _, e := range extras {
		expectedKeys[string(crypto.SHA3Sum256(e.id))] = true
	}
	// top-level trie nodes = everything reachable without entering an account
	top := 0
	if src.root != nil {
		top = countTrieNodes(src.db, src.root)
	}
	src.nested = len(src.needed) - top

	observe := func(w ss.WorldSnapshot, what string) []string {
		var out []string
		for _, d := range sm.ObserveWorldSnapshot(w, model, true) {
			out = append(out, fmt.Sprintf("%s: a%d %s want %s got %s", what, d.Acc, d.Field, d.Want, d.Got))
		}
		for _, e := range extras {
			as := w.GetAccountSnapshot(e.id)
			if as == nil {
				out = append(out, fmt.Sprintf("%s: filler account %x absent", what, e.id))
				continue
			}
			if as.GetBalance().Cmp(e.balance) != 0 {
				out = append(out, fmt.Sprintf("%s: filler account %x balance %s want %s", what, e.id, as.GetBalance(), e.balance))
			}
			for _, kv := range templates[e.tmpl] {
				if v, err := as.GetValue(kv[0]); err != nil || !bytes.Equal(v, kv[1]) {
					out = append(out, fmt.Sprintf("%s: filler account %x storage %x = %x err %v", what, e.id, kv[0], v, err))
				}
			}
			if e.code != nil {
				if nc := as.NextContract(); nc == nil {
					out = append(out, fmt.Sprintf("%s: twin account %x has no pending contract", what, e.id))
				} else if code, err := nc.Code(); err != nil || !bytes.Equal(code, e.code) {
					out = append(out, fmt.Sprintf("%s: twin account %x code %x err %v, want %x", what, e.id, code, err, e.code))
				}
			}
		}
		vl := w.GetValidatorSnapshot()
		if vl.Len() != len(valAddrs) {
			out = append(out, fmt.Sprintf("%s: %d validators, want %d", what, vl.Len(), len(valAddrs)))
		} else {
			for i := range valAddrs {
				if v, ok := vl.Get(i); !ok || v.Address().String() != valAddrs[i] {
					out = append(out, fmt.Sprintf("%s: validator %d differs", what, i))
				}
			}
		}
		if !bytes.Equal(vl.Hash(), vh) {
			out = append(out, fmt.Sprintf("%s: validator hash %x want %x", what, vl.Hash(), vh))
		}
		if !bytes.Equal(w.StateHash(), src.root) {
			out = append(out, fmt.Sprintf("%s: state hash %x want trusted root %x", what, w.StateHash(), src.root))
		}
		return out
	}
	src.attach = func(b merkle.Builder) (func() []string, error) {
		wss, err := ss.NewWorldSnapshotWithBuilder(b, src.root, vh, nil, nil)
		if err != nil {
			return nil, err
		}
		return func() []string { return observe(wss, "builder-snapshot") }, nil
	}
	src.verify = func(raw db.Database) []string {
		vs, err := ss.ValidatorSnapshotFromHash(raw, vh)
		if err != nil {
			return []string{"rebuilt: validators: " + err.Error()}
		}
		out := observe(ss.NewWorldSnapshot(raw, src.root, vs, nil, nil), "rebuilt")
		// full iteration of the account trie: exactly the expected accounts
		it := trie_manager.NewImmutableForObject(raw, src.root, ss.AccountType).Iterator()
		n := 0
		for ; it.Has(); it.Next() {
			_, k, err := it.Get()
			if err != nil {
				out = append(out, "rebuilt: account iteration: "+err.Error())
				break
			}
			n++
			if !expectedKeys[string(k)] {
				out = append(out, fmt.Sprintf("rebuilt: unexpected account key %x", k))
			}
		}
		if n != len(expectedKeys) {
			out = append(out, fmt.Sprintf("rebuilt: %d accounts, want %d", n, len(expectedKeys)))
		}
		return out
	}
	return src
}

// countTrieNodes counts the stored (hashed) nodes of the top-level trie by
// proof paths of all keys; used only for the non-triviality rule.
func countTrieNodes(d db.Database, root []byte) int {
	im := trie_manager.NewImmutable(d, root)
	seen := map[string]bool{}
	for it := im.Iterator(); it.Has(); it.Next() {
		_, k, err := it.Get()
		if err != nil {
			break
		}
		for _, p := range im.GetProof(k) {
			if len(p) >= 32 {
				seen[string(crypto.SHA3Sum256(p))] = true
			}
		}
	}
	return len(seen)
}

func buildMPT(r *rand.Rand) *source {
	src := &source{kind: "mpt", db: sm.NewRecDB()}
	m := trie_manager.NewMutable(src.db, nil)
	kv := map[string]string{}
	n := r.Intn(4) * r.Intn(50)
	if r.Intn(5) == 0 {
		n = 1 + r.Intn(3)
	}
	for i := 0; i < n; i++ {
		var k []byte
		switch r.Intn(4) {
		case 0:
			k = sm.Keys[r.Intn(len(sm.Keys))]
		case 1:
			k = make([]byte, 1+r.Intn(3))
			r.Read(k)
			k[0] &= 0x11 // shared prefixes
		default:
			h := crypto.SHA3Sum256([]byte{byte(i), byte(i >> 8), byte(r.Intn(4))})
			k = h
		}
		v := make([]byte, 1+r.Intn(70))
		r.Read(v)
		if r.Intn(5) == 0 {
			v = []byte("same-value-in-several-leaves-longer-than-32-bytes")
		}
		if _, err := m.Set(k, v); err != nil {
			panic(err)
		}
		kv[string(k)] = string(v)
	}
	// a few deletions
	ks := make([]string, 0, len(kv))
	for k := range kv {
		ks = append(ks, k)
	}
	sort.Strings(ks)
	for _, k := range ks {
		if r.Intn(8) == 0 {
			if _, err := m.Delete([]byte(k)); err != nil {
				panic(err)
			}
			delete(kv, k)
		}
	}
	snap := m.GetSnapshot()
	if err := snap.Flush(); err != nil {
		panic(err)
	}
	src.root = snap.Hash()
	src.needed = src.db.Entries()
	check := func(what string, get func(k []byte) ([]byte, error)) []string {
		var out []string
		for k, v := range kv {
			got, err := get([]byte(k))
			if err != nil || !bytes.Equal(got, []byte(v)) {
				out = append(out, fmt.Sprintf("%s: key %x = %x err %v, want %x", what, k, got, err, v))
			}
		}
		sort.Strings(out)
		return out
	}
	src.attach = func(b merkle.Builder) (func() []string, error) {
		im := trie_manager.NewImmutable(b.Database(), src.root)
		im.Resolve(b)
		return func() []string { return check("builder-trie", im.Get) }, nil
	}
	src.verify = func(raw db.Database) []string {
		im := trie_manager.NewImmutable(raw, src.root)
		out := check("rebuilt", im.Get)
		n := 0
		var prev []byte
		for it := im.Iterator(); it.Has(); it.Next() {
			v, k, err := it.Get()
			if err != nil {
				out = append(out, "rebuilt: iteration: "+err.Error())
				break
			}
			n++
			if want, ok := kv[string(k)]; !ok || want != string(v) {
				out = append(out, fmt.Sprintf("rebuilt: iteration yields %x=%x", k, v))
			}
			if prev != nil && bytes.Compare(prev, k) >= 0 {
				out = append(out, "rebuilt: iteration order")
			}
			prev = append([]byte(nil), k...)
		}
		if n != len(kv) {
			out = append(out, fmt.Sprintf("rebuilt: %d entries, want %d", n, len(kv)))
		}
		if !bytes.Equal(im.Hash(), src.root) {
			out = append(out, "rebuilt: root hash")
		}
		return out
	}
	return src
}

func buildReceipts(r *rand.Rand) *source {
	src := &source{kind: "receipts", db: sm.NewRecDB()}
	n := 1 + r.Intn(12)
	var rcts []txresult.Receipt
	var jsons []string
	var raws [][]byte
	cum := big.NewInt(0)
	for i := 0; i < n; i++ {
		to := sm.Addrs[r.Intn(sm.NAcc)]
		rct := txresult.NewReceipt(src.db, module.UseMPTOnEvents, to)
		for j, m := 0, r.Intn(3)*r.Intn(4); j < m; j++ {
			data := make([]byte, 1+r.Intn(60))
			r.Read(data)
			rct.AddLog(sm.Addrs[3+r.Intn(3)], [][]byte{[]byte("Event(int,bytes)"), {byte(j), byte(i)}}, [][]byte{data})
		}
		used := big.NewInt(int64(100 + r.Intn(100000)))
		cum = new(big.Int).Add(cum, used)
		rct.SetCumulativeStepUsed(cum)
		status := module.StatusSuccess
		if r.Intn(4) == 0 {
			status = module.StatusReverted
		}
		rct.SetResult(status, used, big.NewInt(12500000000), nil)
		rcts = append(rcts, rct)
	}
	rl := txresult.NewReceiptListFromSlice(src.db, rcts)
	if err := rl.Flush(); err != nil {
		panic(err)
	}
	src.root = rl.Hash()
	src.needed = src.db.Entries()
	src.nested = len(src.needed) - countTrieNodes(src.db, src.root)
	for _, rct := range rcts {
		j, err := rct.ToJSON(module.JSONVersionLast)
		if err != nil {
			panic(err)
		}
		b, _ := json.Marshal(j)
		jsons = append(jsons, string(b))
		raws = append(raws, rct.Bytes())
	}
	check := func(what string, l module.ReceiptList) []string {
		var out []string
		for i := range raws {
			rct, err := l.Get(i)
			if err != nil {
				out = append(out, fmt.Sprintf("%s: receipt %d: %v", what, i, err))
				continue
			}
			if !bytes.Equal(rct.Bytes(), raws[i]) {
				out = append(out, fmt.Sprintf("%s: receipt %d bytes differ", what, i))
			}
			j, err := rct.ToJSON(module.JSONVersionLast)
			if err != nil {
				out = append(out, fmt.Sprintf("%s: receipt %d json: %v", what, i, err))
				continue
			}
			if b, _ := json.Marshal(j); string(b) != jsons[i] {
				out = append(out, fmt.Sprintf("%s: receipt %d json differs: %s want %s", what, i, b, jsons[i]))
			}
		}
		if _, err := l.Get(len(raws)); err == nil {
			out = append(out, what+": extra receipt")
		}
		if !bytes.Equal(l.Hash(), src.root) {
			out = append(out, what+": root hash")
		}
		return out
	}
	src.attach = func(b merkle.Builder) (func() []string, error) {
		l := txresult.NewReceiptListWithBuilder(b, src.root)
		return func() []string { return check("builder-list", l) }, nil
	}
	src.verify = func(raw db.Database) []string {
		return check("rebuilt", txresult.NewReceiptListFromHash(raw, src.root))
	}
	return src
}

func hx(b []byte) string { return hex.EncodeToString(b) }
