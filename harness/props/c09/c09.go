// Package c09: parallel transaction execution is equivalent to sequential
// execution.
//
// Level 1 drives state.WorldVirtualState directly, with the very call
// sequence of service.executeTxsConcurrent (GetFuture in block order on the
// dispatcher goroutine, body on a worker limited by a token channel,
// GetSnapshot / Reset for retries, Commit at the end, final Realize).
// Level 2 runs the same random programs through the real dispatcher
// (service.NewTransition(...).Execute) with ConcurrencyLevel 1 and 2/4/8.
// Both are compared with a plain-map sequential interpreter of the program
// and with the real sequential execution (state hash, receipts, every read).
package c09

import (
	"bytes"
	"encoding/hex"
	"encoding/json"
	"fmt"
	"math/rand"
	"os"
	"runtime"
	"strings"
	"sync"
	"time"

	"github.com/icon-project/goloop/common"
	"github.com/icon-project/goloop/common/db"
	"github.com/icon-project/goloop/module"
	"github.com/icon-project/goloop/service"
	"github.com/icon-project/goloop/service/platform/basic"
	"github.com/icon-project/goloop/service/state"

	"verif/lib/ev"
	"verif/lib/svc"
)

func l1Programs(t string) int {
	if t == ev.Thorough {
		return 40
	}
	return 12
}

func l2Programs(t string) int {
	if t == ev.Thorough {
		return 2
	}
	return 1
}

func init() {
	ev.Register(&ev.Prop{
		ID:    "C09",
		Level: "exploration",
		Cases: func(t string) int {
			if t == ev.Thorough {
				return 640
			}
			return 96
		},
		Batches: func(t string) int { return 16 },
		Rule:    "each case = 12 (thorough 40) random block programs at level 1 + 1 (thorough 2) at level 2 (quick 96 cases, thorough 640). A program = 8..40 scripted transactions over 5 accounts x 2 slots + the world lock; each declares read/write account locks, world-read or world-write (declared set >= touched set) and runs read / write(unique value derived from tx, op, attempt and everything read so far) / delete / self-revert ops; a fraction fails retryably 1..RetryCount times with attempt-only writes that must vanish. Level 1: WorldContext.GetFuture chain + workers on state.WorldVirtualState exactly as executeTxsConcurrent (token channel of size 2/3/4/8, GetSnapshot, UpdateSystemInfo, Reset on retry, Commit, final Realize), PRNG sleeps/Gosched between ops, GOMAXPROCS 1/2/4/16 per batch. Level 2: service.NewTransition(...).Execute with ConcurrencyLevel 1 vs 2/4/8 on the same parent state. Oracle: plain-map sequential interpreter: every read of every attempt, final values of all slots; real sequential execution: state hash / Result() bytes / every receipt. Non-trivial = distinct program with >=1 read-after-write dependency between different transactions and >=1 pair of independent transactions.",
		MinNonTrivial: func(t string) int {
			if t == ev.Thorough {
				return 15000
			}
			return 600
		},
		Required: []string{"l1_programs", "l2_programs", "l1_reads_checked", "l2_reads_checked", "l1_retries", "l2_retries",
			"l1_world_write_txs", "l1_world_read_txs", "l1_overlapping_programs", "l2_overlapping_programs",
			"l2_receipts_compared", "l1_state_hash_compared", "l1_programs_commit_order_differs_from_block_order"},
		Assumptions: []string{
			"scripted transactions (lib/svc) stand in for contract handlers: they declare their locks in Prepare through ctx.GetFuture like goloop's handlers and touch only declared accounts",
			"level 1 replicates the executor's call sequence in the harness (token channel, GetSnapshot, UpdateSystemInfo in 3 of 4 programs, Reset, Commit, Realize); level 2 uses goloop's dispatcher unchanged",
			"interleavings are sampled (sleeps/Gosched in handlers, GOMAXPROCS variation), not enumerated; the evidence reports distinct commit orders observed",
			"the Go race detector watches all runs; a race report in goloop code is reported as a violation (crash.race.*)",
		},
		TimeoutSec: func(t string) int {
			if t == ev.Thorough {
				return 2400
			}
			return 400
		},
		Env: func(tier string, batch int) []string {
			e := []string{fmt.Sprintf("GOMAXPROCS=%d", []int{16, 4, 2, 1}[batch%4])}
			if os.Getenv("VERIF_DEV_RACE_CONTINUE") != "" {
				// development knob only (never set by MANIFEST commands): let the oracle speak
				// although the race detector already has a report, to triage a finding
				e = append(e, "GORACE=halt_on_error=0 exitcode=0")
			}
			return e
		},
		Run: run,
	})
}

func run(c *ev.Ctx) {
	svc.Quiet()
	c.Count(fmt.Sprintf("gomaxprocs_%d_batches", runtime.GOMAXPROCS(0)), 1)
	var env *svc.Env
	var root module.Transition
	defer func() {
		if env != nil {
			env.Close()
		}
	}()
	c.Cases(func(ci int, r *rand.Rand) {
		for k := 0; k < l1Programs(c.Tier) && !c.Stopped(); k++ {
			if k > 0 {
				c.Eval(1)
			}
			level1(c, r, ci, k)
		}
		for k := 0; k < l2Programs(c.Tier) && !c.Stopped(); k++ {
			if env == nil {
				var err error
				if env, err = svc.NewEnv(); err != nil {
					c.Violation("harness.env", err.Error())
					return
				}
				if root, err = env.Init(); err != nil {
					c.Violation("harness.init-transition", err.Error())
					return
				}
			}
			c.Eval(1)
			level2(c, env, root, r, ci, k)
		}
	})
}

// delay table: per transaction and op a pause in microseconds (-1 = Gosched).
func genDelays(r *rand.Rand, p []*svc.Script) [][]int {
	style := r.Intn(4) // 0 none, 1 light, 2 heavy on some txs, 3 mixed
	d := make([][]int, len(p))
	for i, s := range p {
		d[i] = make([]int, len(s.Ops)+1)
		slow := r.Intn(5) == 0
		for j := range d[i] {
			switch style {
			case 0:
			case 1:
				d[i][j] = []int{0, 0, -1, 20}[r.Intn(4)]
			case 2:
				if slow {
					d[i][j] = 200 + r.Intn(800)
				}
			default:
				d[i][j] = []int{0, -1, -1, 30, 100, 400}[r.Intn(6)]
				if slow && j == 0 {
					d[i][j] = 500 + r.Intn(1000)
				}
			}
		}
	}
	return d
}

func pause(d int) {
	switch {
	case d < 0:
		runtime.Gosched()
	case d > 0:
		time.Sleep(time.Duration(d) * time.Microsecond)
	}
}

func setInit(ws state.WorldState, init svc.ModelWorld) error {
	for a := 0; a < nAccounts; a++ {
		for k := 0; k < nKeys; k++ {
			if v, ok := init.Get(a, k); ok {
				if _, err := ws.GetAccountState(svc.AccID(a)).SetValue(svc.ValKey(k), []byte(v)); err != nil {
					return err
				}
			}
		}
	}
	return nil
}

type attemptObs struct {
	Reads    []svc.Read `json:"reads"`
	Reverted bool       `json:"reverted"`
	Err      string     `json:"err,omitempty"`
}

// compareReads checks the attempts of one transaction against the model.
func compareReads(c *ev.Ctx, prefix string, tx int, got []attemptObs, model *svc.ModelResult, counter string, wit func(map[string]interface{}) interface{}) bool {
	want := model.Txs[tx].Attempts
	if len(got) != len(want) {
		c.Violation(prefix+".attempt-count", wit(map[string]interface{}{"tx": tx, "attempts": len(got), "model_attempts": len(want)}))
		return false
	}
	for a := range want {
		if got[a].Err != "" {
			kind := ".op-error"
			if strings.Contains(got[a].Err, "Reset panicked") {
				kind = ".reset-panics"
			} else if strings.Contains(got[a].Err, "reset:") {
				kind = ".reset-error"
			}
			c.Violation(prefix+kind, wit(map[string]interface{}{"tx": tx, "attempt": a, "err": got[a].Err}))
			return false
		}
		if len(got[a].Reads) != len(want[a].Reads) {
			c.Violation(prefix+".read-count", wit(map[string]interface{}{"tx": tx, "attempt": a, "got": got[a].Reads, "want": want[a].Reads}))
			return false
		}
		for i := range want[a].Reads {
			g, w := got[a].Reads[i], want[a].Reads[i]
			c.Count(counter, 1)
			if g != w {
				c.Violation(prefix+".read."+classify(tx, g, w, model), wit(map[string]interface{}{"tx": tx, "attempt": a, "read_index": i, "got": g, "want": w}))
				return false
			}
		}
	}
	return true
}

func level1(c *ev.Ctx, r *rand.Rand, ci, k int) {
	n := 8 + r.Intn(33)
	level := []int{2, 3, 4, 8}[r.Intn(4)]
	salt := fmt.Sprintf("C09/%d/%d/L1/%d", c.Seed, ci, k)
	prog := genProgram(r, salt, n)
	init := genInit(r)
	delays := genDelays(r, prog)
	updateSys := r.Intn(4) != 0
	pj, _ := json.Marshal(prog)
	c.Note("L1 k=%d n=%d level=%d updateSystemInfo=%v init=%v delays_us=%v program=%s", k, n, level, updateSys, init, delays, pj)

	model := svc.Interpret(init, prog, service.RetryCount)
	if model.BlockFails {
		c.Violation("harness.generator-produced-failing-block", string(pj))
		return
	}

	dbase := db.NewMapDB()
	ws0 := state.NewWorldState(dbase, nil, nil, nil, nil)
	if err := setInit(ws0, init); err != nil {
		c.Violation("harness.init-state", err.Error())
		return
	}
	ss0 := ws0.GetSnapshot()
	bi := common.NewBlockInfo(1, 1_700_000_000_000_000)

	// --- real sequential execution (the executor's sequential loop)
	wsS, err := state.WorldStateFromSnapshot(ss0)
	if err != nil {
		c.Violation("harness.world-from-snapshot", err.Error())
		return
	}
	wcS := state.NewWorldContext(wsS, bi, nil, basic.Platform)
	seqObs := make([][]attemptObs, n)
	for i, s := range prog {
		wcs := wcS.GetSnapshot()
		for retry := 0; ; retry++ {
			reads, rev, opErr := s.ExecOps(wcS, wcs, retry, nil)
			o := attemptObs{Reads: reads, Reverted: rev}
			if opErr != nil {
				o.Err = opErr.Error()
			}
			seqObs[i] = append(seqObs[i], o)
			if s.AttemptKind(retry) == "ok" || retry >= service.RetryCount || opErr != nil {
				break
			}
			if err := wcS.Reset(wcs); err != nil {
				c.Violation("l1.sequential.reset-error", err.Error())
				return
			}
		}
	}
	seqHash := wsS.GetSnapshot().StateHash()

	// --- concurrent execution on WorldVirtualState, as executeTxsConcurrent does
	wsC, _ := state.WorldStateFromSnapshot(ss0)
	wsC.EnableNodeCache()
	var cur state.WorldContext = state.NewWorldContext(wsC, bi, nil, basic.Platform)
	tokens := make(chan struct{}, level)
	for i := 0; i < level; i++ {
		tokens <- struct{}{}
	}
	var mu sync.Mutex
	var seq uint64
	concObs := make([][]attemptObs, n)
	begin := make([]uint64, n)
	end := make([]uint64, n)
	var commitOrder []int
	resetErrs := map[int]string{}
	var wg sync.WaitGroup
	for i, s := range prog {
		wc := cur.GetFuture(s.LockRequests())
		cur = wc
		<-tokens
		wg.Add(1)
		go func(i int, s *svc.Script, wc state.WorldContext) {
			defer wg.Done()
			wvs := wc.WorldVirtualState()
			wvss := wvs.GetSnapshot()
			mu.Lock()
			seq++
			begin[i] = seq
			mu.Unlock()
			for retry := 0; ; retry++ {
				if updateSys {
					wc.UpdateSystemInfo()
				}
				reads, rev, opErr := s.ExecOps(wc, wvss, retry, func(op int) { pause(delays[i][op]) })
				o := attemptObs{Reads: reads, Reverted: rev}
				if opErr != nil {
					o.Err = opErr.Error()
				}
				mu.Lock()
				concObs[i] = append(concObs[i], o)
				mu.Unlock()
				if s.AttemptKind(retry) == "ok" || retry >= service.RetryCount || opErr != nil {
					break
				}
				if err := svc.SafeReset(wvs, wvss); err != nil {
					mu.Lock()
					resetErrs[i] = err.Error()
					mu.Unlock()
					break
				}
			}
			mu.Lock()
			seq++
			end[i] = seq
			commitOrder = append(commitOrder, i)
			mu.Unlock()
			wvs.Commit()
			tokens <- struct{}{}
		}(i, s, wc)
	}
	realized := ev.Watchdog(120*time.Second, func() {
		cur.WorldVirtualState().Realize()
		wg.Wait()
	})
	if !realized {
		c.Notef("case %d L1 program %d: Realize did not return within 120 s; waiting for the batch watchdog", ci, k)
		select {}
	}
	finalSS := wsC.GetSnapshot()
	concHash := finalSS.StateHash()

	wit := func(extra map[string]interface{}) interface{} {
		w := map[string]interface{}{"stage": "level1", "n": n, "token_level": level, "update_system_info": updateSys,
			"init": init, "program": prog, "delays_us": delays, "commit_order": commitOrder}
		for k, v := range extra {
			w[k] = v
		}
		return w
	}

	c.Count("l1_programs", 1)
	c.Count(fmt.Sprintf("l1_programs_level_%d", level), 1)
	for i, s := range prog {
		switch summarize(s).world {
		case 2:
			c.Count("l1_world_write_txs", 1)
		case 1:
			c.Count("l1_world_read_txs", 1)
		}
		c.Count("l1_retries", len(model.Txs[i].Attempts)-1)
		c.Count("l1_txs", 1)
	}

	// the model itself is checked against goloop's sequential execution first
	for i := range prog {
		if !compareReads(c, "l1.sequential-vs-model", i, seqObs[i], model, "l1_sequential_reads_checked", wit) {
			return
		}
	}
	for i := range prog {
		if e, ok := resetErrs[i]; ok {
			key := "l1.retry-reset-error"
			if strings.Contains(e, "Reset panicked") {
				key = "l1.retry-reset-panics"
			}
			c.Violation(key, wit(map[string]interface{}{"tx": i, "err": e}))
			return
		}
		if !compareReads(c, "l1", i, concObs[i], model, "l1_reads_checked", wit) {
			return
		}
	}
	// final values of every slot
	for a := 0; a < nAccounts; a++ {
		var as state.AccountSnapshot = finalSS.GetAccountSnapshot(svc.AccID(a))
		for kk := 0; kk < nKeys; kk++ {
			want, wok := model.Final.Get(a, kk)
			var got []byte
			if as != nil {
				got, _ = as.GetValue(svc.ValKey(kk))
			}
			c.Count("l1_final_slots_checked", 1)
			if (got != nil) != wok || string(got) != want {
				c.Violation("l1.final-state.slot-differs-from-sequential", wit(map[string]interface{}{"account": a, "key": kk, "got": string(got), "got_present": got != nil, "want": want, "want_present": wok}))
				return
			}
		}
	}
	c.Count("l1_state_hash_compared", 1)
	if !bytes.Equal(seqHash, concHash) {
		c.Violation("l1.state-hash.differs-from-sequential", wit(map[string]interface{}{"sequential": hex.EncodeToString(seqHash), "concurrent": hex.EncodeToString(concHash)}))
		return
	}

	// what was observed about the schedule
	overl := false
	for i := 0; i < n && !overl; i++ {
		for j := i + 1; j < n; j++ {
			if begin[i] < end[j] && begin[j] < end[i] {
				overl = true
				break
			}
		}
	}
	if overl {
		c.Count("l1_overlapping_programs", 1)
	}
	inOrder := true
	for i := range commitOrder {
		if commitOrder[i] != i {
			inOrder = false
		}
	}
	if !inOrder {
		c.Count("l1_programs_commit_order_differs_from_block_order", 1)
	}
	c.Distinct("l1_commit_orders", fmt.Sprint(commitOrder))
	raw, indep := nonTrivial(prog)
	if raw && indep {
		c.NonTrivial(canon(prog))
	}
	if c.WantSample() && raw && indep && k == 0 {
		c.Sample(map[string]interface{}{"stage": "level1", "n": n, "token_level": level, "commit_order": commitOrder, "program_head": prog[:3], "state_hash": hex.EncodeToString(concHash)})
	}
}

func level2(c *ev.Ctx, env *svc.Env, root module.Transition, r *rand.Rand, ci, k int) {
	n := 8 + r.Intn(33)
	salt := fmt.Sprintf("C09/%d/%d/L2/%d", c.Seed, ci, k)
	prog := genProgram(r, salt, n)
	init := genInit(r)
	pj, _ := json.Marshal(prog)
	const ts = int64(1_700_000_000_000_000)
	c.Note("L2 k=%d n=%d init=%v program=%s", k, n, init, pj)
	model := svc.Interpret(init, prog, service.RetryCount)
	if model.BlockFails {
		c.Violation("harness.generator-produced-failing-block", string(pj))
		return
	}

	// setup block: one world-write transaction installs the initial values.
	// (Values written by a script are "T-1.<op>...." - the model is told the same.)
	setup := &svc.Script{Salt: salt + "/setup", Index: -1, Locks: []svc.Lock{{A: svc.World, W: true}}}
	for a := 0; a < nAccounts; a++ {
		for kk := 0; kk < nKeys; kk++ {
			if _, ok := init.Get(a, kk); ok {
				setup.Ops = append(setup.Ops, svc.Op{K: svc.OpWrite, A: a, Key: kk})
			}
		}
	}
	sm := svc.Interpret(nil, []*svc.Script{setup}, service.RetryCount)
	init = sm.Final
	model = svc.Interpret(init, prog, service.RetryCount)
	so := env.Run(root, []module.Transaction{svc.NewScriptTx(setup, ts, nil)}, 1, ts, 1, true, 120*time.Second)
	if !so.Succeeded() {
		c.Violation("harness.setup-block-failed", fmt.Sprint(so.StartErr, so.ValidateErr, so.ExecuteErr, so.TimedOut))
		return
	}
	parent := so.Tr

	type runRes struct {
		level  int
		o      *svc.Outcome
		rec    *svc.Recorder
		delays [][]int
	}
	mk := func(level int) *runRes {
		rr := &runRes{level: level, rec: svc.NewRecorder()}
		if level > 1 {
			rr.delays = genDelays(r, prog)
			d := rr.delays
			rr.rec.Sched = func(tx, attempt, op int) { pause(d[tx][op]) }
		}
		txs := make([]module.Transaction, n)
		for i, s := range prog {
			txs[i] = svc.NewScriptTx(s, ts+1, rr.rec)
		}
		c.Note("L2 run level=%d delays_us=%v", level, rr.delays)
		rr.o = env.Run(parent, txs, 2, ts+1, level, true, 120*time.Second)
		if rr.o.TimedOut {
			c.Notef("case %d L2 program %d level %d: no callback within 120 s; waiting for the batch watchdog", ci, k, level)
			select {}
		}
		return rr
	}
	seqRun := mk(1)
	wit := func(rr *runRes) func(map[string]interface{}) interface{} {
		return func(extra map[string]interface{}) interface{} {
			w := map[string]interface{}{"stage": "level2", "n": n, "concurrency_level": rr.level, "init": init, "setup": setup, "program": prog,
				"delays_us": rr.delays, "completion_order": rr.rec.CompletionOrder(),
				"on_execute_err": fmt.Sprint(rr.o.ExecuteErr), "on_validate_err": fmt.Sprint(rr.o.ValidateErr)}
			for k, v := range extra {
				w[k] = v
			}
			return w
		}
	}
	obsOf := func(rr *runRes, i int) []attemptObs {
		t := rr.rec.Tx(i)
		if t == nil {
			return nil
		}
		var out []attemptObs
		for _, a := range t.Attempts {
			o := attemptObs{Reads: a.Reads, Reverted: a.Reverted}
			if a.Kind == "op-error" {
				o.Err = a.Err
			}
			out = append(out, o)
		}
		return out
	}
	if !seqRun.o.Succeeded() {
		c.Violation("l2.sequential-block-failed", wit(seqRun)(nil))
		return
	}
	for i := range prog {
		if !compareReads(c, "l2.sequential-vs-model", i, obsOf(seqRun, i), model, "l2_sequential_reads_checked", wit(seqRun)) {
			return
		}
	}
	c.Count("l2_programs", 1)
	for i := range prog {
		c.Count("l2_retries", len(model.Txs[i].Attempts)-1)
		switch summarize(prog[i]).world {
		case 2:
			c.Count("l2_world_write_txs", 1)
		case 1:
			c.Count("l2_world_read_txs", 1)
		}
	}
	for _, level := range []int{2, 4, 8} {
		if c.Stopped() {
			return
		}
		c.Eval(1)
		cr := mk(level)
		w := wit(cr)
		c.Count(fmt.Sprintf("l2_runs_level_%d", level), 1)
		if !cr.o.Succeeded() {
			c.Violation("l2.concurrent-block-failed-where-sequential-succeeds", w(nil))
			return
		}
		for i := range prog {
			if !compareReads(c, "l2", i, obsOf(cr, i), model, "l2_reads_checked", w) {
				return
			}
		}
		if len(cr.o.Receipts) != len(seqRun.o.Receipts) || len(cr.o.Receipts) != n {
			c.Violation("l2.receipt-count", w(map[string]interface{}{"sequential": len(seqRun.o.Receipts), "concurrent": len(cr.o.Receipts)}))
			return
		}
		for i := range cr.o.Receipts {
			c.Count("l2_receipts_compared", 1)
			a, b := seqRun.o.Receipts[i], cr.o.Receipts[i]
			if !bytes.Equal(a.Bytes(), b.Bytes()) {
				c.Violation("l2.receipt-differs-from-sequential", w(map[string]interface{}{"slot": i, "sequential": hex.EncodeToString(a.Bytes()), "concurrent": hex.EncodeToString(b.Bytes())}))
				return
			}
			if err := a.Check(b); err != nil {
				c.Violation("l2.receipt-check-fails", w(map[string]interface{}{"slot": i, "err": err.Error()}))
				return
			}
		}
		c.Count("l2_results_compared", 1)
		if !bytes.Equal(seqRun.o.Result, cr.o.Result) {
			c.Violation("l2.result-differs-from-sequential", w(map[string]interface{}{"sequential": hex.EncodeToString(seqRun.o.Result), "concurrent": hex.EncodeToString(cr.o.Result)}))
			return
		}
		if cr.rec.Overlaps() > 0 {
			c.Count("l2_overlapping_programs", 1)
		}
		c.Distinct("l2_completion_orders", fmt.Sprint(cr.rec.CompletionOrder()))

		// probe block on top of the concurrent result: a world-write reader of all slots
		if level == 8 || r.Intn(3) == 0 {
			probe := &svc.Script{Salt: salt + fmt.Sprintf("/probe%d", level), Index: 0, Locks: []svc.Lock{{A: svc.World, W: true}}}
			for a := 0; a < nAccounts; a++ {
				for kk := 0; kk < nKeys; kk++ {
					probe.Ops = append(probe.Ops, svc.Op{K: svc.OpRead, A: a, Key: kk})
				}
			}
			prec := svc.NewRecorder()
			po := env.Run(cr.o.Tr, []module.Transaction{svc.NewScriptTx(probe, ts+2, prec)}, 3, ts+2, 1, true, 120*time.Second)
			pt := prec.Tx(0)
			if !po.Succeeded() || pt == nil || len(pt.Attempts) != 1 {
				c.Violation("l2.probe-block-failed", w(nil))
				return
			}
			for _, rd := range pt.Attempts[0].Reads {
				want, ok := model.Final.Get(rd.A, rd.Key)
				c.Count("l2_final_slots_checked", 1)
				if rd.Present != ok || rd.Val != want {
					c.Violation("l2.final-state.slot-differs-from-sequential", w(map[string]interface{}{"account": rd.A, "key": rd.Key, "got": rd, "want": want, "want_present": ok}))
					return
				}
			}
		}
	}
	raw, indep := nonTrivial(prog)
	if raw && indep {
		c.NonTrivial(canon(prog))
	}
	if c.WantSample() && raw && indep {
		c.Sample(map[string]interface{}{"stage": "level2", "n": n, "result": hex.EncodeToString(seqRun.o.Result), "receipts": len(seqRun.o.Receipts), "program_head": prog[:2]})
	}
}
