package c09

import (
	"fmt"
	"math/rand"
	"strings"

	"github.com/icon-project/goloop/service"

	"verif/lib/svc"
)

const (
	nAccounts = 5
	nKeys     = 2
)

// genProgram generates one block program over the small account universe.
// Declared lock set is a superset of the touched set; writes only happen
// under a write lock (account or world).
func genProgram(r *rand.Rand, salt string, n int) []*svc.Script {
	// per-program flavour: how contended, how many world locks
	hot := r.Intn(3) == 0 // most transactions on 2 accounts
	worldW := []int{0, 5, 12, 25}[r.Intn(4)]
	worldR := []int{0, 5, 12, 25}[r.Intn(4)]
	retryPct := []int{0, 10, 25}[r.Intn(3)]
	out := make([]*svc.Script, n)
	for i := 0; i < n; i++ {
		s := &svc.Script{Salt: salt, Index: i}
		readable := map[int]bool{}
		writable := map[int]bool{}
		p := r.Intn(100)
		world := 0
		switch {
		case p < worldW:
			world = 2
			s.Locks = append(s.Locks, svc.Lock{A: svc.World, W: true})
		case p < worldW+worldR:
			world = 1
			s.Locks = append(s.Locks, svc.Lock{A: svc.World, W: false})
		}
		if world != 2 {
			k := 1 + r.Intn(3)
			if world == 1 {
				k = r.Intn(3)
			}
			for j := 0; j < k; j++ {
				a := r.Intn(nAccounts)
				if hot && r.Intn(4) != 0 {
					a = r.Intn(2)
				}
				w := r.Intn(3) != 0
				s.Locks = append(s.Locks, svc.Lock{A: a, W: w})
				readable[a] = true
				if w {
					writable[a] = true
				}
			}
		}
		if world != 0 {
			for a := 0; a < nAccounts; a++ {
				readable[a] = true
				if world == 2 {
					writable[a] = true
				}
			}
		}
		if r.Intn(5) == 0 {
			// duplicate / upgraded requests are legal: the state keeps the strongest
			if len(s.Locks) > 0 {
				l := s.Locks[r.Intn(len(s.Locks))]
				if l.A != svc.World {
					s.Locks = append(s.Locks, svc.Lock{A: l.A, W: false})
				}
			}
		}
		var rs, ws []int
		for a := 0; a < nAccounts; a++ {
			if readable[a] {
				rs = append(rs, a)
			}
			if writable[a] {
				ws = append(ws, a)
			}
		}
		nops := 1 + r.Intn(6)
		for j := 0; j < nops && len(rs) > 0; j++ {
			q := r.Intn(100)
			switch {
			case q < 45 || len(ws) == 0:
				s.Ops = append(s.Ops, svc.Op{K: svc.OpRead, A: rs[r.Intn(len(rs))], Key: r.Intn(nKeys)})
			case q < 88:
				s.Ops = append(s.Ops, svc.Op{K: svc.OpWrite, A: ws[r.Intn(len(ws))], Key: r.Intn(nKeys)})
			case q < 95:
				s.Ops = append(s.Ops, svc.Op{K: svc.OpDelete, A: ws[r.Intn(len(ws))], Key: r.Intn(nKeys)})
			default:
				s.Ops = append(s.Ops, svc.Op{K: svc.OpReset})
			}
		}
		if len(s.Ops) > 0 && r.Intn(100) < retryPct {
			s.Fail.Retry = 1 + r.Intn(service.RetryCount)
			s.Fail.RetryCode = []string{"exec", "rerun"}[r.Intn(2)]
			s.Fail.After = r.Intn(len(s.Ops) + 1)
			// some ops exist only in a failing attempt: their effect must vanish with the Reset
			for j := range s.Ops {
				if r.Intn(4) == 0 {
					s.Ops[j].Only = 1 + r.Intn(s.Fail.Retry+1)
				}
			}
			if len(ws) > 0 && r.Intn(2) == 0 {
				extra := svc.Op{K: svc.OpWrite, A: ws[r.Intn(len(ws))], Key: r.Intn(nKeys), Only: 1}
				s.Ops = append([]svc.Op{extra}, s.Ops...)
				s.Fail.After++
			}
		}
		out[i] = s
	}
	return out
}

// genInit generates the initial values of the universe.
func genInit(r *rand.Rand) svc.ModelWorld {
	w := svc.ModelWorld{}
	for a := 0; a < nAccounts; a++ {
		for k := 0; k < nKeys; k++ {
			if r.Intn(2) == 0 {
				w[fmt.Sprintf("%d/%d", a, k)] = fmt.Sprintf("I%d.%d", a, k)
			}
		}
	}
	return w
}

type lockSummary struct {
	world int          // 0 none, 1 read, 2 write
	accs  map[int]bool // account -> write?
}

func summarize(s *svc.Script) lockSummary {
	ls := lockSummary{accs: map[int]bool{}}
	for _, l := range s.Locks {
		if l.A == svc.World {
			if l.W {
				ls.world = 2
			} else if ls.world == 0 {
				ls.world = 1
			}
			continue
		}
		ls.accs[l.A] = ls.accs[l.A] || l.W
	}
	return ls
}

// nonTrivial: >=1 read-after-write dependency between different transactions
// and >=1 pair of independent transactions (no world lock, disjoint accounts).
func nonTrivial(p []*svc.Script) (raw, indep bool) {
	wrote := map[int]int{} // account -> first writer
	for j, s := range p {
		for _, op := range s.Ops {
			switch op.K {
			case svc.OpRead:
				if i, ok := wrote[op.A]; ok && i < j {
					raw = true
				}
			case svc.OpWrite, svc.OpDelete:
				if _, ok := wrote[op.A]; !ok && op.Only == 0 {
					wrote[op.A] = j
				}
			}
		}
	}
	sums := make([]lockSummary, len(p))
	for i, s := range p {
		sums[i] = summarize(s)
	}
	for i := range p {
		for j := i + 1; j < len(p) && !indep; j++ {
			if sums[i].world != 0 || sums[j].world != 0 || len(sums[i].accs) == 0 || len(sums[j].accs) == 0 {
				continue
			}
			dis := true
			for a := range sums[i].accs {
				if _, ok := sums[j].accs[a]; ok {
					dis = false
				}
			}
			if dis {
				indep = true
			}
		}
	}
	return
}

// canon is the canonical encoding of a program (for distinct counting).
func canon(p []*svc.Script) string {
	var b strings.Builder
	for _, s := range p {
		fmt.Fprintf(&b, "%v|%v|%v;", s.Locks, s.Ops, s.Fail)
	}
	return b.String()
}

// writerOf parses a value written by a script ("T<tx>.<op>.<attempt>:...").
func writerOf(v string) (tx, op, attempt int, ok bool) {
	if _, err := fmt.Sscanf(v, "T%d.%d.%d:", &tx, &op, &attempt); err != nil {
		return 0, 0, 0, false
	}
	return tx, op, attempt, true
}

// classify names the way an observed read deviates from the expected one.
func classify(reader int, got, want svc.Read, model *svc.ModelResult) string {
	if !got.Present {
		return "missing-value-of-earlier-write"
	}
	tx, _, att, ok := writerOf(got.Val)
	if !ok {
		if want.Present {
			return "initial-value-instead-of-earlier-write"
		}
		return "unexpected-initial-value"
	}
	switch {
	case tx < 0:
		return "setup-value-instead-of-earlier-write"
	case tx > reader:
		return "sees-write-of-later-transaction"
	case tx == reader:
		return "own-write-mismatch"
	}
	if tx < len(model.Txs) {
		if final := len(model.Txs[tx].Attempts) - 1; att != final {
			return "sees-write-of-rolled-back-attempt"
		}
	}
	if !want.Present {
		return "sees-value-deleted-or-reverted-by-earlier-transaction"
	}
	return "stale-or-misordered-earlier-write"
}
