package c34

// Rollback phase (added for seed C34d): the service takes a snapshot of the IISS state before every
// transaction and resets to it when the transaction fails (SCORE revert after a setStake/setBond
// call, step exhaustion). The simulator histories never fail after the timers were touched, so this
// phase drives icstate.State directly: accounts unstake towards a few shared expire heights, a
// snapshot is taken, some of them cancel (timer Delete) or unstake more (timer Add), the state is
// reset to the snapshot, and then the timer of every height must list exactly the accounts that
// hold an unstake slot of that height (each once) — otherwise unstaked ICX is never returned, or
// returned twice, when its lock period ends.

import (
	"fmt"
	"math/big"
	"math/rand"
	"reflect"
	"sort"

	"github.com/icon-project/goloop/common"
	"github.com/icon-project/goloop/common/db"
	"github.com/icon-project/goloop/common/log"
	"github.com/icon-project/goloop/icon/icmodule"
	"github.com/icon-project/goloop/icon/iiss/icobject"
	"github.com/icon-project/goloop/icon/iiss/icstate"
	"github.com/icon-project/goloop/module"

	"verif/lib/ev"
)

func rollbackPhase(c *ev.Ctx, r *rand.Rand) {
	const rev = icmodule.LatestRevision
	const slotMax = 4
	database := icobject.AttachObjectFactory(db.NewMapDB(), icstate.NewObjectImpl)
	lg := log.New()
	lg.SetLevel(log.FatalLevel)
	s := icstate.NewStateFromSnapshot(icstate.NewSnapshot(database, nil), false, lg)
	nAcc := 2 + r.Intn(5)
	heights := []int64{100, 100, 100, 120, 140}
	addrs := make([]module.Address, nAcc)
	// model: account index -> expire height -> amount
	model := make([]map[int64]int64, nAcc)
	for i := range addrs {
		id := make([]byte, 20)
		r.Read(id)
		addrs[i] = common.NewAccountAddress(id)
		model[i] = map[int64]int64{}
	}
	var trace []string
	schedule := func(tl []icstate.TimerJobInfo, a module.Address) {
		for _, tj := range tl {
			icstate.ScheduleTimerJob(s.GetUnstakingTimerState(tj.Height), tj, a)
		}
	}
	unstake := func(i int, m map[int64]int64) bool {
		h := heights[r.Intn(len(heights))]
		if _, ok := m[h]; !ok && len(m) >= slotMax {
			return false
		}
		amt := int64(1 + r.Intn(1000))
		as := s.GetAccountState(addrs[i])
		tl, err := as.IncreaseUnstake(big.NewInt(amt), h, slotMax, rev)
		if err != nil {
			trace = append(trace, fmt.Sprintf("unstake %d h=%d amt=%d refused: %v", i, h, amt, err))
			return false
		}
		schedule(tl, addrs[i])
		m[h] += amt
		trace = append(trace, fmt.Sprintf("unstake %d h=%d amt=%d", i, h, amt))
		return true
	}
	cancel := func(i int, m map[int64]int64) bool {
		if len(m) == 0 {
			return false
		}
		// DecreaseUnstake consumes slots from the last one; cancel the whole last slot
		var hs []int64
		for h := range m {
			hs = append(hs, h)
		}
		sort.Slice(hs, func(a, b int) bool { return hs[a] < hs[b] })
		h := hs[len(hs)-1]
		amt := m[h]
		as := s.GetAccountState(addrs[i])
		tl, err := as.DecreaseUnstake(big.NewInt(amt), h, rev)
		if err != nil {
			trace = append(trace, fmt.Sprintf("cancel %d h=%d amt=%d refused: %v", i, h, amt, err))
			return false
		}
		schedule(tl, addrs[i])
		delete(m, h)
		trace = append(trace, fmt.Sprintf("cancel %d h=%d amt=%d", i, h, amt))
		return true
	}
	for i := range addrs {
		if err := s.GetAccountState(addrs[i]).SetStake(big.NewInt(1000000)); err != nil {
			return
		}
		for k := 1 + r.Intn(3); k > 0; k-- {
			unstake(i, model[i])
		}
	}
	rounds := 1 + r.Intn(3)
	for rd := 0; rd < rounds; rd++ {
		ss := s.GetSnapshot()
		trace = append(trace, "snapshot")
		// a transaction that will be reverted: the model is not touched
		scratch := make([]map[int64]int64, nAcc)
		for i := range scratch {
			scratch[i] = map[int64]int64{}
			for h, v := range model[i] {
				scratch[i][h] = v
			}
		}
		deleted := false
		for k := 1 + r.Intn(3); k > 0; k-- {
			i := r.Intn(nAcc)
			if r.Intn(3) > 0 {
				if cancel(i, scratch[i]) {
					deleted = true
				}
			} else {
				unstake(i, scratch[i])
			}
		}
		if err := s.Reset(ss); err != nil {
			c.Violation("rollback.reset-failed", map[string]interface{}{"trace": trace, "error": err.Error()})
			return
		}
		trace = append(trace, "reset")
		c.Count("rollback_resets", 1)
		if deleted {
			c.Count("rollback_resets_after_timer_delete", 1)
		}
		// sometimes a committed transaction between two reverted ones
		if r.Intn(2) == 0 {
			i := r.Intn(nAcc)
			if r.Intn(2) == 0 {
				cancel(i, model[i])
			} else {
				unstake(i, model[i])
			}
		}
	}
	// oracle: timers == slots
	want := map[int64]map[string]int{}
	for i := range addrs {
		as := s.GetAccountState(addrs[i])
		got := map[int64]int64{}
		for _, u := range as.UnStakes() {
			got[u.GetExpire()] += u.GetValue().Int64()
		}
		if fmt.Sprint(got) != fmt.Sprint(model[i]) {
			// the op-choosing model is only a guide (slot merging rules are the implementation's); the oracle below uses the real slots
			c.Count("rollback_guide_model_differs", 1)
		}
		for h := range got {
			if want[h] == nil {
				want[h] = map[string]int{}
			}
			want[h][addrs[i].String()] = 1
		}
	}
	for _, h := range []int64{100, 120, 140} {
		got := map[string]int{}
		if ts := s.GetUnstakingTimerSnapshot(h); ts != nil {
			for itr := ts.Iterator(); itr.Has(); itr.Next() {
				a, _ := itr.Get()
				if a == nil || reflect.ValueOf(a).IsNil() { // a compacted slot may hold a typed nil
					got["<nil>"]++
				} else {
					got[a.String()]++
				}
			}
		}
		w := want[h]
		if w == nil {
			w = map[string]int{}
		}
		if fmt.Sprint(got) != fmt.Sprint(w) {
			c.Violation("rollback.unstaking-timer-differs-from-slots", map[string]interface{}{
				"trace": trace, "height": h, "timer": fmt.Sprint(got), "accounts_with_a_slot_of_that_height": fmt.Sprint(w)})
			return
		}
		c.Count("rollback_timers_compared", 1)
	}
	c.Eval(1)
}
