// Package c34: staking operations conserve ICX and keep stake accounting
// consistent. Random operation programs are executed by goloop's own ICON
// staking simulator (icon/icsim, which runs the real icon/iiss extension
// code); after every block the complete state is read back and compared with
// the conservation identities of the property statement.
package c34

import (
	"fmt"
	"math/big"
	"math/rand"
	"os"
	"sort"

	"github.com/icon-project/goloop/icon/icmodule"
	"github.com/icon-project/goloop/module"

	"verif/lib/ev"
	"verif/lib/icon"
)

func init() {
	ev.Register(&ev.Prop{
		ID:    "C34",
		Level: "exploration",
		Cases: func(t string) int {
			if t == ev.Thorough {
				return 640
			}
			return 32
		},
		Batches: func(t string) int {
			if t == ev.Thorough {
				return 64
			}
			return 16
		},
		Rule: "each case = one simulator history at the latest revision (PRNG-chosen term period 8-24, 4 main + 3 sub P-Reps, lock/unbond multipliers 1-3, unstake slot max 2-4, 12 driven users + 7 bonders + 7 P-Reps + 4 unfunded addresses + 88 idle stakers): 150 blocks (thorough 240) with 0-5 operations each (setStake up/down/cancel incl. max, max+1, using, using-1, negative; setDelegation / setBond incl. all, all+1, ignoring-unbond, move; setBonderList; transfer incl. all, all+1, to treasury; registerPRep / unregisterPRep; claimIScore; commission rates; two scripted accounts unstake several times in one block and then unstake again at the slot maximum / re-stake the last slot; in half of the histories validators miss votes so that penalties slash bonds). After EVERY block: supply == sum of balances over the whole account trie + sum stake + sum unstaking; per account delegated+bonded+unbonding <= stake; total stake / delegation / bond == per-account sums (delegation and bond towards active P-Reps); no unstake slot overdue; every account's balance+stake+unstaking moved exactly by the block's transfers, claims, fees, slashes (so an unstake is paid once, to its owner, in its expiry block); unstake slots change only through the owner's successful setStake; accounts without a successful operation do not change. Non-trivial = distinct (history, block) in which at least one operation succeeded or an unstake/unbond expired.",
		MinNonTrivial: func(t string) int {
			if t == ev.Thorough {
				return 40000
			}
			return 1500
		},
		Required: []string{"blocks_checked", "ops_success", "ops_failed", "unstake_slots_created", "unstake_paid",
			"unstake_cancelled", "unbond_created", "unbond_expired", "terms_passed", "claims_paid", "prep_registered",
			"prep_unregistered", "slot_max_hit", "boundary_stake_max", "boundary_delegate_all", "slashes", "slots_sharing_expire_height",
			"rollback_resets_after_timer_delete", "rollback_timers_compared"},
		Assumptions: []string{
			"icon/icsim is a faithful driver of icon/iiss (it is goloop's own simulator; its world context implements transfer/deposit/withdraw/burn on the real world state)",
			"operation arguments pass goloop's own argument validators (icstate.NewDelegations/NewBonds/NewBonderList) before being submitted, as the chain SCORE does",
			"value flow of a block is derived from the receipts (transfer/claim/burn/slash events)",
		},
		TimeoutSec: func(t string) int {
			if t == ev.Thorough {
				return 7200
			}
			return 900
		},
		Run: run,
	})
}

type hist struct {
	c      *ev.Ctx
	w      *icon.World
	ci     int
	params icon.Params
	tail   []map[string]interface{}
	// every successful setStake of the history per account name (explains unstake slots in witnesses)
	stakeLog map[string][]string
}

func (h *hist) witness(o *icon.Obs, extra map[string]interface{}) map[string]interface{} {
	m := map[string]interface{}{
		"case":         h.ci,
		"params":       h.params,
		"height":       o.Height,
		"term":         fmt.Sprintf("seq=%d [%d,%d]", o.TermSeq, o.TermStart, o.TermEnd),
		"history_tail": h.tail,
	}
	for k, v := range extra {
		m[k] = v
		// witnesses about one account carry all successful setStake operations of that account
		if a, ok := v.(map[string]interface{}); ok && (k == "account" || k == "after") {
			if name, ok := a["account"].(string); ok {
				m["owner_setstake_history"] = h.stakeLog[name]
			}
		}
	}
	return m
}

func acctJSON(w *icon.World, a *icon.Acct) map[string]interface{} {
	votes := func(l []icon.Vote) []string {
		var s []string
		for _, v := range l {
			e := ""
			if v.Expire != 0 {
				e = fmt.Sprintf("@%d", v.Expire)
			}
			s = append(s, fmt.Sprintf("%x:%s%s", v.To, v.Value, e))
		}
		return s
	}
	var us []string
	for _, u := range a.Unstakes {
		us = append(us, fmt.Sprintf("%s@%d", u.Value, u.Expire))
	}
	return map[string]interface{}{
		"account": w.Name(a.Addr), "address": a.Addr.String(), "balance": a.Balance.String(), "stake": a.Stake.String(),
		"unstakes": us, "delegations": votes(a.Delegations), "bonds": votes(a.Bonds), "unbonds": votes(a.Unbonds),
		"cached_delegating": a.CDelegating.String(), "cached_bond": a.CBond.String(), "cached_unbond": a.CUnbond.String(),
	}
}

func sortedAccts(o *icon.Obs) []*icon.Acct {
	keys := make([]string, 0, len(o.Accts))
	for k := range o.Accts {
		keys = append(keys, k)
	}
	sort.Strings(keys)
	l := make([]*icon.Acct, len(keys))
	for i, k := range keys {
		l[i] = o.Accts[k]
	}
	return l
}

// checkState checks the identities that must hold in every single state.
func (h *hist) checkState(o *icon.Obs) {
	c, w := h.c, h.w
	sumStake, sumUnstaking := new(big.Int), new(big.Int)
	sumDeleg, sumBond := new(big.Int), new(big.Int)
	for _, a := range sortedAccts(o) {
		sumStake.Add(sumStake, a.Stake)
		sumUnstaking.Add(sumUnstaking, a.Unstaking())
		neg := a.Balance.Sign() < 0 || a.Stake.Sign() < 0
		for i, u := range a.Unstakes {
			if i > 0 && a.Unstakes[i-1].Expire == u.Expire {
				c.Count("slots_sharing_expire_height", 1)
			}
			neg = neg || u.Value.Sign() < 0
			if u.Expire <= o.Height {
				c.Violation("unstake.overdue", h.witness(o, map[string]interface{}{
					"account": acctJSON(w, a), "slot": fmt.Sprintf("%s@%d", u.Value, u.Expire),
					"expect": "an unstake slot is paid out and removed in the block of its expire height"}))
			}
		}
		for _, l := range [][]icon.Vote{a.Delegations, a.Bonds, a.Unbonds} {
			for _, v := range l {
				neg = neg || v.Value.Sign() < 0
			}
		}
		if neg {
			c.Violation("account.negative-amount", h.witness(o, map[string]interface{}{"account": acctJSON(w, a)}))
		}
		// delegated + bonded + unbonding <= stake, on the lists and on the cached totals
		using := new(big.Int).Add(a.Delegated(), a.Bonded())
		using.Add(using, a.Unbonding())
		cached := new(big.Int).Add(a.CDelegating, a.CBond)
		cached.Add(cached, a.CUnbond)
		if using.Cmp(a.Stake) > 0 || cached.Cmp(a.Stake) > 0 {
			c.Violation("account.using-exceeds-stake", h.witness(o, map[string]interface{}{
				"account": acctJSON(w, a), "delegated+bonded+unbonding": using.String(), "stake": a.Stake.String()}))
		}
		if a.CDelegating.Cmp(a.Delegated()) != 0 || a.CBond.Cmp(a.Bonded()) != 0 || a.CUnbond.Cmp(a.Unbonding()) != 0 {
			c.Violation("account.cached-total-differs-from-list", h.witness(o, map[string]interface{}{"account": acctJSON(w, a)}))
		}
		for _, d := range a.Delegations {
			if p := o.PReps[d.To]; p != nil && p.Active {
				sumDeleg.Add(sumDeleg, d.Value)
			}
		}
		for _, b := range a.Bonds {
			if p := o.PReps[b.To]; p != nil && p.Active {
				sumBond.Add(sumBond, b.Value)
			}
		}
	}
	// total supply == all balances + staked + unstaking
	rhs := new(big.Int).Add(o.SumBalancesAll, sumStake)
	rhs.Add(rhs, sumUnstaking)
	if o.Supply.Cmp(rhs) != 0 {
		c.Violation("conservation.supply", h.witness(o, map[string]interface{}{
			"total_supply": o.Supply.String(), "sum_balances_all_accounts": o.SumBalancesAll.String(),
			"accounts_in_trie": o.NTrieAccounts, "sum_balances_known_accounts": o.SumBalancesKnow.String(),
			"sum_stake": sumStake.String(), "sum_unstaking": sumUnstaking.String(),
			"supply_minus_rhs": new(big.Int).Sub(o.Supply, rhs).String()}))
	}
	if o.TotalStake.Cmp(sumStake) != 0 {
		c.Violation("total.stake", h.witness(o, map[string]interface{}{
			"network_total_stake": o.TotalStake.String(), "sum_account_stakes": sumStake.String(),
			"diff": new(big.Int).Sub(o.TotalStake, sumStake).String()}))
	}
	if o.TotalDelegation.Cmp(sumDeleg) != 0 {
		c.Violation("total.delegation", h.witness(o, map[string]interface{}{
			"network_total_delegation": o.TotalDelegation.String(), "sum_account_delegations_to_active_preps": sumDeleg.String(),
			"diff": new(big.Int).Sub(o.TotalDelegation, sumDeleg).String(), "preps": prepsJSON(w, o)}))
	}
	if o.TotalBond.Cmp(sumBond) != 0 {
		c.Violation("total.bond", h.witness(o, map[string]interface{}{
			"network_total_bond": o.TotalBond.String(), "sum_account_bonds_to_active_preps": sumBond.String(),
			"diff": new(big.Int).Sub(o.TotalBond, sumBond).String(), "preps": prepsJSON(w, o)}))
	}
	c.Eval(4 + len(o.Accts))
}

func prepsJSON(w *icon.World, o *icon.Obs) []string {
	var l []string
	for _, p := range o.PReps {
		l = append(l, fmt.Sprintf("%s active=%v delegated=%s bonded=%s", w.Name(p.Owner), p.Active, p.Delegated, p.Bonded))
	}
	sort.Strings(l)
	return l
}

func slotsKey(l []icon.Slot, above int64) string {
	var s []string
	for _, u := range l {
		if u.Expire > above {
			s = append(s, fmt.Sprintf("%s@%d", u.Value, u.Expire))
		}
	}
	sort.Strings(s)
	return fmt.Sprint(s)
}

func votesKey(l []icon.Vote, skipExpire int64) string {
	var s []string
	for _, v := range l {
		if skipExpire != 0 && v.Expire == skipExpire {
			continue
		}
		s = append(s, fmt.Sprintf("%x:%s@%d", v.To, v.Value, v.Expire))
	}
	sort.Strings(s)
	return fmt.Sprint(s)
}

// checkTransition checks what one block may change.
func (h *hist) checkTransition(prev, cur *icon.Obs, b *icon.Block) (interesting bool) {
	c, w := h.c, h.w
	f := b.Flow
	ht := cur.Height
	for _, a := range sortedAccts(cur) {
		k := string(a.Addr.Bytes())
		p := prev.Accts[k]
		// expiring slots of the state before the block
		expiring := new(big.Int)
		nExp := 0
		for _, u := range p.Unstakes {
			if u.Expire == ht {
				expiring.Add(expiring, u.Value)
				nExp++
			}
		}
		// value flow: balance + stake + unstaking changes exactly by transfers, claims, fees and slashes
		want := new(big.Int)
		if v := f.Net[k]; v != nil {
			want.Add(want, v)
		}
		if v := f.Slashed[k]; v != nil {
			want.Sub(want, v)
		}
		got := new(big.Int).Sub(a.Holdings(), p.Holdings())
		if got.Cmp(want) != 0 {
			key := "account.value-flow"
			if nExp > 0 {
				key = "unstake.payout-amount"
			}
			c.Violation(key, h.witness(cur, map[string]interface{}{
				"before": acctJSON(w, p), "after": acctJSON(w, a),
				"holdings_change": got.String(), "expected_change_from_receipts": want.String(),
				"expiring_unstake_in_this_block": expiring.String(),
				"expect":                         "balance+stake+unstaking of an account changes only by transfers, claims, registration fee and slashing"}))
		}
		// a paid slot arrives on the balance (when nothing else moved the balance)
		if nExp > 0 {
			c.Count("unstake_paid", nExp)
			interesting = true
			if !f.Touched[k] {
				if d := new(big.Int).Sub(a.Balance, p.Balance); d.Cmp(expiring) != 0 {
					c.Violation("unstake.payout-not-on-balance", h.witness(cur, map[string]interface{}{
						"before": acctJSON(w, p), "after": acctJSON(w, a), "balance_change": d.String(), "expiring": expiring.String()}))
				}
			}
		}
		// unstake slots not yet due change only through the owner's successful setStake
		if !f.SetStake[k] {
			if slotsKey(p.Unstakes, ht) != slotsKey(a.Unstakes, ht) {
				c.Violation("unstake.slots-changed-without-setstake", h.witness(cur, map[string]interface{}{
					"before": acctJSON(w, p), "after": acctJSON(w, a),
					"expect": "slots that expire later than this block stay as they are unless their owner's setStake succeeded in this block"}))
			}
		} else {
			if len(a.Unstakes) > len(p.Unstakes)-nExp {
				c.Count("unstake_slots_created", 1)
			}
			if a.Unstaking().Cmp(new(big.Int).Sub(p.Unstaking(), expiring)) < 0 {
				c.Count("unstake_cancelled", 1)
			}
			if int64(len(a.Unstakes)) >= h.params.UnstakeSlotMax {
				c.Count("slot_max_hit", 1)
			}
		}
		// accounts without a successful operation keep their stake and votes
		nUnbExp := 0
		for _, u := range p.Unbonds {
			if u.Expire == ht {
				nUnbExp++
			}
		}
		if nUnbExp > 0 {
			c.Count("unbond_expired", nUnbExp)
			interesting = true
		}
		if len(a.Unbonds) > len(p.Unbonds)-nUnbExp {
			c.Count("unbond_created", 1)
		}
		if !f.Touched[k] {
			if a.Stake.Cmp(p.Stake) != 0 || votesKey(a.Delegations, 0) != votesKey(p.Delegations, 0) ||
				votesKey(a.Bonds, 0) != votesKey(p.Bonds, 0) || votesKey(a.Unbonds, 0) != votesKey(p.Unbonds, ht) {
				c.Violation("account.changed-without-successful-operation", h.witness(cur, map[string]interface{}{
					"before": acctJSON(w, p), "after": acctJSON(w, a)}))
			}
		}
	}
	c.Eval(len(cur.Accts))
	return interesting || f.NSuccess > 0
}

// VERIF_C34_DEBUG=<account name> (e.g. user0) dumps every operation and that account's state to the
// batch .out file; a development aid that does not influence the run.
var debug = os.Getenv("VERIF_C34_DEBUG") != ""

// script adds two fixed scenarios to the first blocks of every history: an
// account that unstakes several times in ONE block (several unstake slots with
// the same expire height) and then (a) unstakes once more when the slot
// maximum is reached, so that the last slot is merged and re-timed, or (b)
// re-stakes exactly the last slot. The generic checks then watch the payout of
// the remaining slots at their expire height.
func (h *hist) script(b int, o *icon.Obs) []*icon.Op {
	w := h.w
	unit := new(big.Int).Mul(big.NewInt(100), icon.ICX)
	mul := func(n int64) *big.Int { return new(big.Int).Mul(unit, big.NewInt(n)) }
	a, bb := w.Script[0], w.Script[1]
	sa, sb := o.Accts[string(a.Bytes())].Stake, o.Accts[string(bb.Bytes())].Stake
	sm := h.params.UnstakeSlotMax
	var ops []*icon.Op
	switch b {
	case 0:
		ops = append(ops, w.OpSetStake(a, new(big.Int).Add(sa, mul(sm+2)), "script-a-stake-up"))
		ops = append(ops, w.OpSetStake(bb, new(big.Int).Add(sb, mul(3)), "script-b-stake-up"))
	case 1:
		for i := int64(1); i <= sm; i++ {
			ops = append(ops, w.OpSetStake(a, new(big.Int).Sub(sa, mul(i)), "script-a-unstake-same-block"))
		}
		ops = append(ops, w.OpSetStake(bb, new(big.Int).Sub(sb, mul(1)), "script-b-unstake-same-block"))
		ops = append(ops, w.OpSetStake(bb, new(big.Int).Sub(sb, mul(2)), "script-b-unstake-same-block"))
	case 2:
		ops = append(ops, w.OpSetStake(bb, new(big.Int).Add(sb, mul(1)), "script-b-restake-last-slot"))
	case 5:
		ops = append(ops, w.OpSetStake(a, new(big.Int).Sub(sa, mul(1)), "script-a-unstake-at-slot-max"))
	}
	return ops
}

func run(c *ev.Ctx) {
	icon.Quiet()
	nBlocks := c.Pick(150, 240)
	c.Cases(func(ci int, r *rand.Rand) {
		for k := 0; k < 200; k++ {
			rollbackPhase(c, r)
		}
		p := icon.RandomParams(r)
		c.Note("params %+v", p)
		w, err := icon.NewWorld(p)
		if err != nil {
			c.Notef("case %d: simulator setup failed: %v", ci, err)
			c.Count("setup_failed", 1)
			return
		}
		h := &hist{c: c, w: w, ci: ci, params: p, stakeLog: map[string][]string{}}
		if err := w.FundTreasury(new(big.Int).Mul(big.NewInt(3000), icon.ICX)); err != nil {
			c.Notef("case %d: %v", ci, err)
			c.Count("setup_failed", 1)
			return
		}
		if p.Penalties {
			rates := map[string]icmodule.Rate{
				icmodule.PenaltyValidationFailure.String():            icmodule.ToRate(p.SlashPct),
				icmodule.PenaltyAccumulatedValidationFailure.String(): icmodule.ToRate(p.SlashPct),
			}
			if err := w.Governance(w.Sim.SetSlashingRates(w.Gov, rates)); err != nil {
				c.Notef("case %d: %v", ci, err)
				c.Count("setup_failed", 1)
				return
			}
		}
		prev, err := w.Observe(false)
		if err != nil {
			c.Violation("observe.failed", map[string]interface{}{"case": ci, "params": p, "err": err.Error()})
			return
		}
		h.checkState(prev)
		if c.WantSample() {
			c.Sample(map[string]interface{}{"case": ci, "params": p, "start_height": prev.Height,
				"supply": prev.Supply.String(), "total_stake": prev.TotalStake.String(), "accounts_in_trie": prev.NTrieAccounts})
		}
		lastTerm := prev.TermSeq
		for b := 0; b < nBlocks && !c.Stopped(); b++ {
			var ops []*icon.Op
			nOps := 0
			switch x := r.Intn(10); {
			case x < 2:
			case x < 5:
				nOps = 1
			case x < 8:
				nOps = 2 + r.Intn(2)
			default:
				nOps = 4 + r.Intn(2)
			}
			for i := 0; i < nOps; i++ {
				ops = append(ops, w.GenOp(r, prev))
			}
			ops = append(h.script(b, prev), ops...)
			var voted []bool
			if p.Penalties {
				// every second term one validator slot misses the first votes of the term window,
				// long enough to reach the validation penalty condition (then its bond is slashed)
				vl := w.Sim.ValidatorList()
				if n := len(vl); n > 0 {
					voted = make([]bool, n)
					for i := range voted {
						voted[i] = true
					}
					win := 2 * p.TermPeriod
					hh := prev.Height + 1
					if n == int(p.MainPReps+p.ExtraMainPReps) && hh%win <= p.PenaltyCond+1 && r.Intn(5) > 0 {
						voted[int(hh/win)%n] = false
					}
				}
			}
			desc := make([]string, len(ops))
			for i, op := range ops {
				desc[i] = fmt.Sprintf("%s %s(%s)[%s]", op.From, op.Kind, op.Arg, op.Intent)
			}
			c.Note("h=%d voted=%v ops=%v", prev.Height+1, voted, desc)
			blk, err := w.RunBlock(ops, voted)
			entry := map[string]interface{}{"height": prev.Height + 1, "ops": ops}
			if voted != nil {
				entry["voted"] = voted
			}
			h.tail = append(h.tail, entry)
			if debug {
				for _, a := range sortedAccts(prev) {
					if w.Name(a.Addr) == os.Getenv("VERIF_C34_DEBUG") {
						fmt.Fprintf(os.Stderr, "DBG before h=%d %v\n", prev.Height+1, acctJSON(w, a))
					}
				}
				for _, op := range ops {
					fmt.Fprintf(os.Stderr, "DBG h=%d %s %s(%s)[%s] ok=%v err=%s\n", prev.Height+1, op.From, op.Kind, op.Arg, op.Intent, op.OK, op.Err)
				}
			}
			if len(h.tail) > 25 {
				h.tail = h.tail[1:]
			}
			if err != nil {
				c.Violation("block.execution-error", h.witness(prev, map[string]interface{}{"err": fmt.Sprintf("%+v", err),
					"expect": "a block made of (possibly failing) staking operations executes; its timers pay due unstakes"}))
				return
			}
			cur, err := w.Observe(false)
			if err != nil {
				c.Violation("observe.failed", h.witness(prev, map[string]interface{}{"err": err.Error()}))
				return
			}
			h.checkState(cur)
			interesting := h.checkTransition(prev, cur, blk)
			c.Count("blocks_checked", 1)
			c.Count("ops_success", blk.Flow.NSuccess)
			c.Count("ops_failed", blk.Flow.NFail)
			c.Count("penalties", blk.Flow.Penalties)
			c.Count("slashes", len(blk.Flow.Slashed))
			c.Count("claims_paid", countPositive(blk.Flow.Claimed))
			for _, op := range ops {
				c.Count("op_"+op.Kind, 1)
				if op.OK && op.Kind == "setStake" {
					h.stakeLog[op.From] = append(h.stakeLog[op.From], fmt.Sprintf("h=%d setStake(%s) [%s]", cur.Height, op.Arg, op.Intent))
				}
				if op.OK {
					c.Count("op_ok_"+op.Kind, 1)
					switch op.Intent {
					case "stake-max":
						c.Count("boundary_stake_max", 1)
					case "delegate-all", "bond-all":
						c.Count("boundary_delegate_all", 1)
					}
					switch op.Kind {
					case "registerPRep":
						c.Count("prep_registered", 1)
					case "unregisterPRep":
						c.Count("prep_unregistered", 1)
					}
				} else if op.Err != "" {
					switch op.Intent {
					case "stake-max+1", "stake-using-1", "delegate-all+1", "bond-all+1", "transfer-all+1", "stake-negative":
						c.Count("boundary_rejected", 1)
					}
				}
			}
			if cur.TermSeq != lastTerm {
				c.Count("terms_passed", 1)
				lastTerm = cur.TermSeq
			}
			if interesting {
				c.NonTrivial(fmt.Sprintf("%d/%d/%d", c.Seed, ci, cur.Height))
			}
			prev = cur
		}
		if c.WantSample() && len(h.tail) > 0 {
			c.Sample(map[string]interface{}{"case": ci, "last_blocks": h.tail[len(h.tail)-3:]})
		}
	})
}

func countPositive(m map[string]*big.Int) int {
	n := 0
	for _, v := range m {
		if v.Sign() > 0 {
			n++
		}
	}
	return n
}

var _ module.Address
