// Package c27: the binary Merkle accumulator (common/trie/mta) produces a
// verifying witness for every item at every length and survives
// Flush/Recover with the same witnesses, without failing or crashing.
package c27

import (
	"bytes"
	"encoding/hex"
	"fmt"
	"math/rand"

	"github.com/icon-project/goloop/common/db"
	"github.com/icon-project/goloop/common/trie/mta"
	"golang.org/x/crypto/sha3"

	"verif/lib/ev"
)

func maxN(tier string) int {
	if tier == ev.Thorough {
		return 3000
	}
	return 300
}

func variants(tier string) int {
	if tier == ev.Thorough {
		return 3
	}
	return 4
}

func init() {
	ev.Register(&ev.Prop{
		ID:    "C27",
		Level: "exploration",
		Cases: func(t string) int { return (maxN(t) + 1) * variants(t) },
		Batches: func(t string) int {
			if t == ev.Thorough {
				return 16
			}
			return 8
		},
		Exhaustive: false,
		Rule: "case = (length n, variant): EVERY n in 0..300 x 4 variants (thorough 0..3000 x 3); items added with AddData/AddHash (variant 0: all AddData, no intermediate flush; variants >=1: PRNG mix of AddData/AddHash with 1-3 intermediate Flush points, some followed by replacing the object with a Recover()ed one). At length n: WitnessFor(i) for EVERY i<n is compared with an independently computed witness (own SHA3-256 binary tree over the leaf hashes, block decomposition of n by its binary digits), folded by the harness to the independently computed block root, and passed to Verify; then Flush, all witnesses again; Recover into a fresh object over the same bucket, Len and all witnesses again; add 1..17 more items (or up to the next power of two), all witnesses again; Flush+Recover once more. Fault phase (a Flush that finally returns nil must have persisted everything): the same n items are re-added to a new accumulator whose bucket fails its k-th Set exactly once (every k of the first Flush for n<=32, 2 random k otherwise; variants 0 and 1), Flush is retried until nil, a fresh accumulator Recover()s from the plain bucket and every witness is checked again. Rollback phase (variants 0 and 2, every n): n items are flushed, 1..5 more are added WITHOUT flush, Recover() is called on the SAME object, then Len and every witness, 1..6 further Adds (their Add-witnesses too), every witness again, Flush, Recover into a fresh object and every witness again are checked against the reference of the persisted sequence; twice in a row. Non-trivial = distinct (n,variant) with n+1 not a power of two (some root slot is empty).",
		MinNonTrivial: func(t string) int {
			if t == ev.Thorough {
				return 8500
			}
			return 1100
		},
		Required:    []string{"witness_checked", "witness_after_recover", "flush_ok", "recover_ok", "lengths_with_empty_slot", "add_witness_checked", "witness_out_of_range_rejected", "flush_retried_after_injected_write_failure", "witness_after_faulted_flush", "recover_on_live_accumulator_after_unflushed_adds", "witness_grown_after_live_recover"},
		Assumptions: []string{"golang.org/x/crypto/sha3 (called directly by the harness) is the reference hash", "db.NewMapDB bucket is a faithful key-value store"},
		TimeoutSec: func(t string) int {
			if t == ev.Thorough {
				return 3000
			}
			return 600
		},
		Run: run,
	})
}

func h256(b ...[]byte) []byte {
	h := sha3.New256()
	for _, x := range b {
		h.Write(x)
	}
	return h.Sum(nil)
}

// model is the independent reference: leaf hashes and the complete inner
// nodes of the binary tree built over them.
type model struct {
	levels [][][]byte // levels[l][j] = hash of the complete node covering leaves [j<<l, (j+1)<<l)
}

func (m *model) append(leaf []byte) {
	if len(m.levels) == 0 {
		m.levels = append(m.levels, nil)
	}
	m.levels[0] = append(m.levels[0], leaf)
	for l := 0; len(m.levels[l])%2 == 0; l++ {
		if l+1 == len(m.levels) {
			m.levels = append(m.levels, nil)
		}
		k := len(m.levels[l])
		m.levels[l+1] = append(m.levels[l+1], h256(m.levels[l][k-2], m.levels[l][k-1]))
	}
}

type wit struct {
	Right bool // sibling is on the right
	Hash  []byte
}

// witness returns the expected sibling path (bottom-up) of leaf i in an
// accumulator of n leaves and the root of the 2^k block containing i.
func (m *model) witness(n, i int) ([]wit, []byte) {
	off := 0
	for k := 62; k >= 0; k-- {
		if n&(1<<uint(k)) == 0 {
			continue
		}
		if i < off+(1<<uint(k)) {
			ws := make([]wit, 0, k)
			for l := 0; l < k; l++ {
				j := i >> uint(l)
				ws = append(ws, wit{Right: j&1 == 0, Hash: m.levels[l][j^1]})
			}
			return ws, m.levels[k][i>>uint(k)]
		}
		off += 1 << uint(k)
	}
	panic("model: index out of range")
}

func fold(ws []mta.Witness, h []byte) []byte {
	for _, w := range ws {
		if w.Direction == mta.Left {
			h = h256(w.HashValue, h)
		} else {
			h = h256(h, w.HashValue)
		}
	}
	return h
}

type caseState struct {
	c      *ev.Ctx
	n      int
	desc   string
	bucket db.Bucket
	key    []byte
	leaves [][]byte
	items  []string // "D:<hex data>" or "H:<hex hash>" in order of addition
	m      model
	stop   bool
}

func (s *caseState) viol(key string, extra map[string]interface{}) {
	if extra == nil {
		extra = map[string]interface{}{}
	}
	extra["case"] = s.desc
	extra["length"] = len(s.leaves)
	if len(s.items) <= 40 {
		extra["items"] = s.items
	} else {
		extra["items"] = "regenerated from case_seed (only the length matters for the slot layout)"
	}
	s.c.Violation(key, extra)
}

// guarded runs f and converts a panic of the code under test into a
// violation with a precise key (the statement says "without failing or crashing").
func (s *caseState) guarded(key string, extra map[string]interface{}, f func()) (ok bool) {
	defer func() {
		if p := recover(); p != nil {
			if extra == nil {
				extra = map[string]interface{}{}
			}
			extra["panic"] = fmt.Sprint(p)
			s.viol(key, extra)
			ok = false
		}
	}()
	f()
	return true
}

// checkAll compares WitnessFor(i) for every i with the model.
func (s *caseState) checkAll(a *mta.Accumulator, stage string, counter string) {
	n := len(s.leaves)
	if int(a.Len()) != n {
		s.viol("len."+stage, map[string]interface{}{"got": a.Len(), "want": n})
		return
	}
	m := &s.m
	for i := 0; i < n && !s.c.Stopped(); i++ {
		s.c.Eval(1)
		var ws []mta.Witness
		var err error
		if !s.guarded("witnessfor.panic", map[string]interface{}{"index": i, "stage": stage}, func() {
			ws, err = a.WitnessFor(int64(i))
		}) {
			s.c.Count("witnessfor_panics", 1)
			// one panic witness per stage is enough; other indices of the same
			// length share the key
			continue
		}
		if err != nil {
			s.viol("witnessfor.error."+stage, map[string]interface{}{"index": i, "err": err.Error()})
			continue
		}
		want, root := m.witness(n, i)
		same := len(ws) == len(want)
		for j := 0; same && j < len(ws); j++ {
			if (ws[j].Direction == mta.Right) != want[j].Right || !bytes.Equal(ws[j].HashValue, want[j].Hash) {
				same = false
			}
		}
		if got := fold(ws, s.leaves[i]); !bytes.Equal(got, root) {
			s.viol("witness.wrong-root."+stage, map[string]interface{}{"index": i, "witness": fmt.Sprint(ws), "folds_to": hex.EncodeToString(got), "block_root": hex.EncodeToString(root)})
			continue
		}
		if !same {
			// folds to the right root but is not the sibling path: only possible
			// with a hash collision; report it as a distinct key.
			s.viol("witness.not-sibling-path."+stage, map[string]interface{}{"index": i, "witness": fmt.Sprint(ws)})
			continue
		}
		var verr error
		if !s.guarded("verify.panic."+stage, map[string]interface{}{"index": i}, func() {
			verr = a.Verify(ws, s.leaves[i])
		}) {
			continue
		}
		if verr != nil {
			s.viol("verify.rejects-own-witness."+stage, map[string]interface{}{"index": i, "err": verr.Error(), "witness": fmt.Sprint(ws)})
			continue
		}
		s.c.Count(counter, 1)
	}
	// index == length is not an item: must be refused, not crash
	var err error
	if s.guarded("witnessfor.panic.out-of-range."+stage, map[string]interface{}{"index": n}, func() {
		_, err = a.WitnessFor(int64(n))
	}) {
		if err == nil {
			s.viol("witnessfor.accepts-out-of-range."+stage, map[string]interface{}{"index": n})
		} else {
			s.c.Count("witness_out_of_range_rejected", 1)
		}
	}
}

func (s *caseState) add(a *mta.Accumulator, r *rand.Rand, useHash bool) {
	d := make([]byte, 1+r.Intn(40))
	r.Read(d)
	// make items distinct and position dependent
	d = append(d, byte(len(s.leaves)), byte(len(s.leaves)>>8))
	lh := h256(d)
	var w []mta.Witness
	ok := s.guarded("add.panic", map[string]interface{}{"data": hex.EncodeToString(d)}, func() {
		if useHash {
			w = a.AddHash(lh)
			s.c.Count("add_hash", 1)
		} else {
			w = a.AddData(d)
			s.c.Count("add_data", 1)
		}
	})
	s.leaves = append(s.leaves, lh)
	if useHash {
		s.items = append(s.items, "H:"+hex.EncodeToString(lh))
	} else {
		s.items = append(s.items, "D:"+hex.EncodeToString(d))
	}
	s.m.append(lh)
	if !ok {
		s.stop = true
		return
	}
	// the witness handed out by Add* is a witness for the new item against the current roots
	n := len(s.leaves)
	_, root := s.m.witness(n, n-1)
	if got := fold(w, lh); !bytes.Equal(got, root) {
		s.viol("add.witness.wrong-root", map[string]interface{}{"witness": fmt.Sprint(w)})
		return
	}
	if err := a.Verify(w, lh); err != nil {
		s.viol("add.witness.rejected", map[string]interface{}{"err": err.Error(), "witness": fmt.Sprint(w)})
		return
	}
	s.c.Count("add_witness_checked", 1)
}

func (s *caseState) flush(a *mta.Accumulator, stage string) bool {
	var err error
	if !s.guarded("flush.panic", map[string]interface{}{"stage": stage}, func() { err = a.Flush() }) {
		s.c.Count("flush_panics", 1)
		return false
	}
	if err != nil {
		s.viol("flush.error", map[string]interface{}{"stage": stage, "err": err.Error()})
		return false
	}
	s.c.Count("flush_ok", 1)
	return true
}

func (s *caseState) recover(stage string) *mta.Accumulator {
	a := &mta.Accumulator{KeyForState: s.key, Bucket: s.bucket}
	var err error
	if !s.guarded("recover.panic", map[string]interface{}{"stage": stage}, func() { err = a.Recover() }) {
		return nil
	}
	if err != nil {
		s.viol("recover.error", map[string]interface{}{"stage": stage, "err": err.Error()})
		return nil
	}
	s.c.Count("recover_ok", 1)
	return a
}

// faultBucket fails the failAt-th Set exactly once (a transient write error).
type faultBucket struct {
	db.Bucket
	sets   int
	failAt int
	failed bool
}

func (b *faultBucket) Set(k, v []byte) error {
	b.sets++
	if b.sets == b.failAt && !b.failed {
		b.failed = true
		return fmt.Errorf("verif: injected transient write failure (Set #%d)", b.sets)
	}
	return b.Bucket.Set(k, v)
}

// faultPhase: a Flush that finally reports success must have persisted
// everything, also when an earlier attempt failed at ANY single write. For
// every chosen k the same n items are added to a new accumulator whose bucket
// fails its k-th Set once; Flush is retried until it returns nil; then a fresh
// accumulator Recover()s from the plain bucket and every witness is checked.
func faultPhase(c *ev.Ctx, r *rand.Rand, n int, parentDesc string) {
	if n < 1 {
		return
	}
	seed := r.Int63()
	kinds := make([]bool, n)
	for i := range kinds {
		kinds[i] = r.Intn(4) == 0 // AddHash
	}
	build := func(bk db.Bucket, s *caseState) *mta.Accumulator {
		ir := rand.New(rand.NewSource(seed))
		a := &mta.Accumulator{KeyForState: s.key, Bucket: bk}
		for k := 0; k < n && !s.stop; k++ {
			s.addQuiet(a, ir, kinds[k])
		}
		return a
	}
	newState := func(desc string) (*caseState, db.Bucket) {
		plain, err := db.NewMapDB().GetBucket("")
		if err != nil {
			panic(err)
		}
		return &caseState{c: c, n: n, bucket: plain, key: []byte("acc"), desc: desc}, plain
	}
	// count the writes of a failure-free first Flush
	s0, plain0 := newState(parentDesc + " fault-phase count")
	fb0 := &faultBucket{Bucket: plain0}
	a0 := build(fb0, s0)
	if s0.stop || a0.Flush() != nil {
		return
	}
	w := fb0.sets
	c.Count("flush_writes_counted", w)
	var ks []int
	if n <= 32 {
		for k := 1; k <= w; k++ {
			ks = append(ks, k)
		}
	} else {
		ks = append(ks, 1+r.Intn(w), 1+r.Intn(w))
	}
	for _, k := range ks {
		if c.Stopped() {
			return
		}
		c.Eval(1)
		s, plain := newState(fmt.Sprintf("%s fault-phase: item_seed=%d fail Set #%d of %d once, retry Flush until nil, Recover", parentDesc, seed, k, w))
		fb := &faultBucket{Bucket: plain, failAt: k}
		a := build(fb, s)
		if s.stop {
			return
		}
		tries, sawErr := 0, false
		for {
			tries++
			var err error
			if !s.guarded("flush.panic.after-write-failure", map[string]interface{}{"try": tries}, func() { err = a.Flush() }) {
				break
			}
			if err == nil {
				break
			}
			sawErr = true
			if tries >= 4 {
				s.viol("flush.keeps-failing-after-transient-write-failure", map[string]interface{}{"tries": tries, "err": err.Error()})
				break
			}
		}
		if !fb.failed {
			continue
		}
		if sawErr {
			c.Count("flush_retried_after_injected_write_failure", 1)
		} else {
			c.Count("flush_swallowed_injected_write_failure", 1)
		}
		s.bucket = plain
		if na := s.recover("after-faulted-flush"); na != nil {
			s.checkAll(na, "after-faulted-flush", "witness_after_faulted_flush")
		}
		c.NonTrivial(fmt.Sprintf("F/%d/%d/%d", n, k, seed))
	}
}

// truncate rolls the reference back to the first n leaves.
func (s *caseState) truncate(n int) {
	s.leaves = s.leaves[:n]
	s.items = s.items[:n]
	for l := range s.m.levels {
		if k := n >> uint(l); k < len(s.m.levels[l]) {
			s.m.levels[l] = s.m.levels[l][:k]
		}
	}
}

// rollbackPhase: Recover() on the LIVE accumulator object after 1..5 unflushed
// Adds is a rollback to the persisted sequence: Len, every witness, and
// everything accumulated afterwards must depend on that sequence only.
func rollbackPhase(c *ev.Ctx, r *rand.Rand, n int, parentDesc string) {
	plain, err := db.NewMapDB().GetBucket("")
	if err != nil {
		panic(err)
	}
	s := &caseState{c: c, n: n, bucket: plain, key: []byte("acc")}
	s.desc = fmt.Sprintf("%s rollback-phase item_seed=%d", parentDesc, r.Int63())
	a := &mta.Accumulator{KeyForState: s.key, Bucket: plain}
	for k := 0; k < n && !s.stop; k++ {
		s.addQuiet(a, r, r.Intn(4) == 0)
	}
	if s.stop || !s.flush(a, "rollback-base") {
		return
	}
	for round := 0; round < 2 && !c.Stopped(); round++ {
		persisted := len(s.leaves)
		u := 1 + r.Intn(5)
		for k := 0; k < u && !s.stop; k++ {
			s.addQuiet(a, r, r.Intn(4) == 0)
		}
		if s.stop {
			return
		}
		s.truncate(persisted)
		s.desc += fmt.Sprintf("; persisted=%d, %d unflushed Adds, Recover() on the same object", persisted, u)
		var rerr error
		if !s.guarded("recover.panic.live", nil, func() { rerr = a.Recover() }) {
			return
		}
		if rerr != nil {
			s.viol("recover.error.live", map[string]interface{}{"err": rerr.Error()})
			return
		}
		c.Count("recover_on_live_accumulator_after_unflushed_adds", 1)
		c.Eval(1)
		s.checkAll(a, "after-live-recover", "witness_after_live_recover")
		v := 1 + r.Intn(6)
		for k := 0; k < v && !s.stop; k++ {
			s.add(a, r, r.Intn(4) == 0)
		}
		if s.stop {
			return
		}
		s.desc += fmt.Sprintf(", then %d Adds", v)
		s.checkAll(a, "grown-after-live-recover", "witness_grown_after_live_recover")
		if !s.flush(a, "after-live-recover") {
			return
		}
		if na := s.recover("after-live-recover"); na != nil {
			s.checkAll(na, "fresh-recover-after-live-recover", "witness_after_recover")
		}
		c.NonTrivial(fmt.Sprintf("L/%d/%d/%d/%d", n, persisted, u, v))
	}
}

// addQuiet adds one item and updates the model without checking the Add witness.
func (s *caseState) addQuiet(a *mta.Accumulator, r *rand.Rand, useHash bool) {
	d := make([]byte, 1+r.Intn(40))
	r.Read(d)
	d = append(d, byte(len(s.leaves)), byte(len(s.leaves)>>8))
	lh := h256(d)
	ok := s.guarded("add.panic", map[string]interface{}{"data": hex.EncodeToString(d)}, func() {
		if useHash {
			a.AddHash(lh)
		} else {
			a.AddData(d)
		}
	})
	s.leaves = append(s.leaves, lh)
	if useHash {
		s.items = append(s.items, "H:"+hex.EncodeToString(lh))
	} else {
		s.items = append(s.items, "D:"+hex.EncodeToString(d))
	}
	s.m.append(lh)
	if !ok {
		s.stop = true
	}
}

func run(c *ev.Ctx) {
	mx := maxN(c.Tier)
	c.Cases(func(ci int, r *rand.Rand) {
		n := ci % (mx + 1)
		variant := ci / (mx + 1)
		// plan
		flushAt := map[int]bool{} // true = also replace by recovered object
		plan := ""
		if variant > 0 && n > 1 {
			for k := 0; k < 1+r.Intn(3); k++ {
				p := 1 + r.Intn(n-1)
				flushAt[p] = r.Intn(2) == 0
				plan += fmt.Sprintf(" flush@%d(recover=%v)", p, flushAt[p])
			}
		}
		more := 1 + r.Intn(17)
		if r.Intn(4) == 0 {
			// up to and across the next power of two
			p := 1
			for p <= n {
				p <<= 1
			}
			more = p - n + r.Intn(2)
			if more > 70 {
				more = 1 + r.Intn(17)
			}
		}
		mdb := db.NewMapDB()
		bk, err := mdb.GetBucket("")
		if err != nil {
			c.Notef("bucket: %v", err)
			return
		}
		s := &caseState{c: c, n: n, bucket: bk, key: []byte("acc")}
		s.desc = fmt.Sprintf("n=%d variant=%d%s more=%d case_seed=%d", n, variant, plan, more, c.CaseSeed(ci))
		c.Note("%s", s.desc)
		a := &mta.Accumulator{KeyForState: s.key, Bucket: bk}
		for k := 0; k < n && !s.stop; k++ {
			s.add(a, r, variant > 0 && r.Intn(3) == 0)
			if rec, ok := flushAt[len(s.leaves)]; ok {
				if s.flush(a, "intermediate") && rec {
					if na := s.recover("intermediate"); na != nil {
						a = na
					}
				}
			}
		}
		if s.stop {
			return
		}
		if (n+1)&n != 0 {
			c.NonTrivial(fmt.Sprintf("%d/%d", n, variant))
			c.Count("lengths_with_empty_slot", 1)
		} else {
			c.Count("lengths_all_slots_full", 1)
		}
		s.checkAll(a, "built", "witness_checked")
		if s.flush(a, "final") {
			s.checkAll(a, "after-flush", "witness_after_flush")
			if na := s.recover("final"); na != nil {
				s.checkAll(na, "after-recover", "witness_after_recover")
				a = na
			}
		}
		// grow further (on the recovered object when persistence worked)
		for k := 0; k < more && !s.stop; k++ {
			s.add(a, r, variant > 0 && r.Intn(3) == 0)
		}
		if s.stop {
			return
		}
		s.checkAll(a, "grown", "witness_checked")
		if s.flush(a, "grown") {
			if na := s.recover("grown"); na != nil {
				s.checkAll(na, "grown-after-recover", "witness_after_recover")
			}
		}
		if variant == 0 || (n > 32 && variant == 1) {
			faultPhase(c, r, n, fmt.Sprintf("n=%d variant=%d", n, variant))
		}
		if variant == 0 || variant == 2 {
			rollbackPhase(c, r, n, fmt.Sprintf("n=%d variant=%d", n, variant))
		}
		if c.WantSample() && n > 2 {
			i := r.Intn(len(s.leaves))
			if ws, err := func() (w []mta.Witness, e error) {
				defer func() {
					if recover() != nil {
						e = fmt.Errorf("panic")
					}
				}()
				return a.WitnessFor(int64(i))
			}(); err == nil {
				c.Sample(map[string]interface{}{"case": s.desc, "length": len(s.leaves), "index": i, "leaf_hash": hex.EncodeToString(s.leaves[i]), "witness": fmt.Sprint(ws)})
			}
		}
	})
}
