// Package c01: consensus agreement under hostile schedules, Byzantine
// equivocation and crash/restart (trace monitor over real engines).
package c01

import (
	"encoding/json"
	"fmt"
	"math/rand"
	"time"

	"verif/lib/csnet"
	"verif/lib/ev"
)

func init() {
	ev.Register(&ev.Prop{
		ID:    "C01",
		Level: "exploration",
		Cases: func(t string) int {
			if t == ev.Thorough {
				return 640
			}
			return 32
		},
		Batches:  func(t string) int { return 16 },
		Parallel: 12,
		Rule: "one case = one run of n real consensus engines (real block manager, service manager, file WALs) whose whole traffic is routed by the harness under a PRNG fault plan (drop/delay/duplicate/partition), a Byzantine strategy for f validators (vote equivocation, proposal equivocation, scripted lock attack on the prevote-locked-block rule, scripted stale-polka attack on the unlock-only-on-later-polka rule) and crash/restart of correct validators with torn WALs. Monitor: every Finalize by a correct validator must equal every other at that height and must be preceded on the wire by precommits for exactly that block from >2n/3 distinct validators in one round (online + offline re-check). Non-trivial = run in which >=2 heights were finalized by >=2 correct validators and (a round >0 occurred, or a Byzantine equivocation was put on the wire, or a validator crashed and restarted); distinct by (class, max round, crashes, equivocations, vote-arrival order hash).",
		MinNonTrivial: func(t string) int {
			if t == ev.Thorough {
				return 200
			}
			return 8
		},
		Required:    []string{"finalize_calls", "precommits_seen", "heights_agreed_by_2plus", "runs_with_round_change"},
		Assumptions: []string{"MapDB models a durable synchronous block DB", "a Byzantine validator is an honest engine whose outbound traffic is rewritten/forged with its key", "wall-clock timers of the engine make runs non-replayable bit for bit; the recorded event log is the witness", "crashes happen at WAL-operation boundaries with byte-prefix tears"},
		TimeoutSec:  func(t string) int { if t == ev.Thorough { return 3000 }; return 420 },
		Run:         run,
	})
}

// Classes of scenarios.
var classes = []string{"baseline", "faults", "partition", "vote-equiv", "prop-equiv", "lock-attack", "crash", "faults+vote-equiv", "stale-polka", "lock-attack-crash"}

// MakePlan builds the plan of case i.
func MakePlan(i int, r *rand.Rand, thorough bool) (csnet.Options, string) {
	class := classes[i%len(classes)]
	n := 4
	if thorough && r.Intn(4) == 0 {
		n = 7
	}
	f := (n - 1) / 3
	plan := &csnet.Plan{Target: 4}
	if thorough {
		plan.Target = 6
	}
	opt := csnet.Options{N: n, Plan: plan, TimeoutPropose: 600 * time.Millisecond}
	faults := func(level int) {
		plan.DropP = []float64{0.05, 0.15, 0.3}[level]
		plan.DelayP = []float64{0.3, 0.5, 0.7}[level]
		plan.MaxDelayMs = []int{40, 150, 400}[level]
		plan.DupP = 0.1
		plan.FaultUntil = plan.Target - 1
	}
	byz := func() {
		perm := r.Perm(n)
		opt.Byz = perm[:f]
	}
	switch class {
	case "baseline":
	case "faults":
		faults(r.Intn(3))
	case "partition":
		faults(0)
		g := r.Perm(n)[:1+r.Intn(n/2)]
		from := int64(1 + r.Intn(2))
		plan.Partitions = []csnet.Partition{{From: from, To: from, Group: g}}
		// a partition that blocks progress at height `from` is lifted by height, so heal it through a second entry: none;
		// instead partitions are expressed on message heights, and the fast-sync/vote-list path heals stragglers afterwards
		plan.FaultUntil = from + 1
	case "vote-equiv":
		byz()
		plan.Strategy = "vote-equiv"
		faults(0)
	case "prop-equiv":
		byz()
		plan.Strategy = "prop-equiv"
		faults(0)
	case "lock-attack", "lock-attack-crash":
		n = 4
		opt.N = 4
		plan.Strategy = class
		plan.AttackHeight = int64(2 + r.Intn(2))
		opt.Byz = []int{csnet.LockAttackByz(plan.AttackHeight)}
		opt.TimeoutPropose = 3 * time.Second
	case "stale-polka":
		n = 4
		opt.N = 4
		plan.Strategy = "stale-polka"
		plan.AttackHeight = int64(2 + r.Intn(2))
		opt.Byz = []int{csnet.StalePolkaByz(plan.AttackHeight)}
		opt.TimeoutPropose = 3 * time.Second
	case "crash":
		faults(r.Intn(2))
		nc := 1 + r.Intn(2)
		for k := 0; k < nc; k++ {
			plan.Crashes = append(plan.Crashes, RandCrash(r, r.Intn(n), int64(1+r.Intn(int(plan.Target)-1))))
		}
	case "faults+vote-equiv":
		byz()
		plan.Strategy = "vote-equiv"
		faults(1 + r.Intn(2))
	}
	opt.Rand = rand.New(rand.NewSource(r.Int63()))
	return opt, class
}

// RandCrash picks a crash point.
func RandCrash(r *rand.Rand, victim int, h int64) csnet.CrashSpec {
	modes := []string{"before", "torn", "after"}
	cp := csnet.CrashPoint{OpIndex: r.Intn(14), Mode: modes[r.Intn(3)], TearBytes: -1, TearFrac: r.Float64()}
	if r.Intn(2) == 0 {
		cp.TearBytes = []int{0, 1, 4, 7, 8, 9, 20, 1 << 20}[r.Intn(8)]
	}
	cp.ZeroFill = r.Intn(3) == 0
	return csnet.CrashSpec{Victim: victim, AtHeight: h, Point: cp}
}

func run(c *ev.Ctx) {
	c.Cases(func(i int, r *rand.Rand) {
		opt, class := MakePlan(i, r, !c.IsQuick())
		c.Note("class=%s n=%d byz=%v plan=%+v", class, opt.N, opt.Byz, *opt.Plan)
		res := csnet.Run(opt, 45*time.Second)
		Report(c, "C01", class, opt, res, false)
	})
}

// Report turns a run result into counters, evidence and violations. c02
// selects which violations belong to the property being checked.
func Report(c *ev.Ctx, prop, class string, opt csnet.Options, res *csnet.Result, c02 bool) {
	if res.StartErr != nil {
		c.Count("runs_start_failed", 1)
		c.Notef("start failed: %v", res.StartErr)
		return
	}
	c.Count("runs", 1)
	c.Count("runs_class_"+class, 1)
	c.Count("finalize_calls", len(res.Fins))
	c.Count("votes_seen", res.Votes)
	c.Count("proposals_seen", res.Proposals)
	c.Count("heights_agreed_by_2plus", res.HeightsAgreedBy2)
	c.Count("byz_equivocations_on_wire", res.Equivocations)
	c.Count("double_sign_reports_by_engines", res.DSReports)
	c.Count("double_sign_reports_against_correct_validator", res.DSReportsAgainstCorrect)
	c.Count("crashes", len(res.Crashes))
	c.Count("restarts", res.Restarts)
	c.Count("restart_failed", res.RestartFailed)
	c.Count("durable_before_send_checks", res.DurableChecks)
	c.Count("remembered_after_recovery_checks", res.RememberChecks)
	c.Count("import_callbacks_delayed", res.ImportDelays)
	c.Count("sent_after_restart_same_height", res.SentAfterRestartSameHeight)
	c.Count("packets_sent", int(res.Router.Sent))
	c.Count("packets_dropped", int(res.Router.Dropped))
	c.Count("packets_delayed", int(res.Router.Delayed))
	c.Count("packets_duplicated", int(res.Router.Duplicated))
	pre := 0
	for range res.Fins {
		pre++
	}
	c.Count("precommits_seen", res.Precommits)
	if res.MaxRound > 0 {
		c.Count("runs_with_round_change", 1)
	}
	if res.LockAttackUnfolded {
		c.Count("scripted_attack_unfolded_"+class, 1)
	}
	if res.LockAttackAborted {
		c.Count("scripted_attack_aborted_by_timing_"+class, 1)
	}
	if res.Capped {
		c.Count("runs_capped_by_watchdog", 1)
	}
	if !res.FramingOK {
		c.Count("wal_framing_model_mismatch", 1)
	}
	for k, v := range res.TearClasses {
		c.Count("tear_"+k, v)
	}
	for _, e := range res.TErrors {
		c.Notef("fixture assertion: %s", e)
	}
	for _, n := range res.Notes {
		c.Notef("%s", n)
	}
	c.Distinct("vote_arrival_orders", res.VoteOrderSig)
	c.Distinct("signatures", fmt.Sprintf("%s/r%d/c%d/e%d", class, res.MaxRound, len(res.Crashes), res.Equivocations))
	for _, v := range res.Violations {
		isC02 := len(v.Key) >= 12 && (v.Key[:12] == "equivocation" || v.Key[:12] == "send-before-" || v.Key[:12] == "sent-message")
		if isC02 != c02 {
			c.Count("other_property_violation_"+v.Key, 1)
			b, _ := json.Marshal(v.Detail)
			if len(b) > 3000 {
				b = b[:3000]
			}
			c.Notef("violation of the sibling property observed: %s %s", v.Key, b)
			continue
		}
		c.Violation(v.Key, map[string]interface{}{"class": class, "n": opt.N, "byz": opt.Byz, "plan": opt.Plan, "detail": v.Detail, "crashes": res.Crashes})
	}
	nontrivial := false
	if c02 {
		nontrivial = res.SentAfterRestartSameHeight > 0
	} else {
		nontrivial = res.HeightsAgreedBy2 >= 2 && (res.MaxRound > 0 || res.Equivocations > 0 || res.Restarts > 0)
	}
	if nontrivial {
		c.NonTrivial(fmt.Sprintf("%s/r%d/c%d/e%d/%x", class, res.MaxRound, len(res.Crashes), res.Equivocations, ev.Hash64(res.VoteOrderSig)))
	}
	if c.WantSample() {
		c.Sample(map[string]interface{}{"class": class, "n": opt.N, "byz": opt.Byz, "plan": opt.Plan,
			"finalized": res.Fins, "max_round": res.MaxRound, "crashes": res.Crashes, "wall_ms": res.WallMs,
			"router": res.Router, "byz_equivocations": res.Equivocations})
	}
}
