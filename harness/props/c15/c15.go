// Package c15: transaction fees and transfers conserve ICX.
package c15

import (
	"encoding/hex"
	"fmt"
	"math/big"
	"math/rand"
	"sort"
	"strings"
	"sync"
	"time"

	"github.com/icon-project/goloop/common"
	"github.com/icon-project/goloop/common/errors"
	"github.com/icon-project/goloop/common/wallet"
	"github.com/icon-project/goloop/module"

	"verif/lib/ev"
	"verif/lib/feefix"
)

func init() {
	ev.Register(&ev.Prop{
		ID:    "C15",
		Level: "exploration",
		Cases: func(t string) int {
			if t == ev.Thorough {
				return 2400
			}
			return 96
		},
		Batches: func(t string) int {
			if t == ev.Thorough {
				return 32
			}
			return 16
		},
		Rule: "each case = one real service stack (basic platform, harness genesis: 8 EOAs with balances from 0 to rich, stepPrice in {0,1,12500000000}, default/input/contractCall step costs, invoke step limit sometimes below the transactions' limits) and a chain of 3 blocks of 1-24 signed v3 transactions executed through service.NewTransition: plain transfers (value 0 / small / all-but-fee / exactly balance-minus-max-fee / more than balance), self transfers, transfers to fresh and to contract-typed addresses, messages with 0-600 data bytes, calls to the chain SCORE that succeed / hit an unknown method / are denied / run out of step / carry value, step limits at the minimum, minimum-1 (only in blocks that must be refused or whose bound violation the oracle would see), exact, generous; several transactions per sender. 40 % of the stacks use the concurrent executor (chain concurrency level 4); two thirds of their blocks are a lock-chain pattern (T0 X->A whose first execution ends in an injected retryable executor failure after a pause = reset + re-run, T1 Y->A of a sender without funds that fails before touching A, T2 A->Z, then 8-13 unrelated transfers), and 4 % of all other transactions get one injected retryable executor failure (Platform.OnTransactionEnd hook). Blocks run with validated=false (must pass cumulative pre-validation) and validated=true (proposer path: reaches the execution-time out-of-balance branches). Oracle: ledger replayed from the receipts (fee = stepUsed x stepPrice of the receipt, value moves iff status is success) compared with EVERY account of the resulting account trie, treasury delta = sum of fees, sum of balances unchanged, bounds default-step charge <= stepUsed <= min(stepLimit, invoke limit), no negative balance in the trie or in the replay. Non-trivial = distinct executed block (sequence of kind/status/value-class/limit-class) with a non-zero step price and at least one failed transaction or several transactions of one sender.",
		MinNonTrivial: func(t string) int {
			if t == ev.Thorough {
				return 2500
			}
			return 100
		},
		Required: []string{"blocks_executed", "tx_success", "tx_failed", "tx_status_OutOfBalance", "tx_status_OutOfStep",
			"tx_uncharged_out_of_balance", "tx_transfer_success", "tx_call_success", "tx_value_call_failed", "blocks_refused_at_validation",
			"accounts_compared", "blocks_validated_false", "blocks_validated_true", "price_nonzero_blocks", "invoke_limit_truncation",
			"blocks_concurrent_executor", "conc_pattern_blocks", "conc_pattern_middle_tx_failed_before_touching_shared_account", "executor_failures_injected"},
		Assumptions: []string{
			"no fee sharing / deposits are configured (the statement excludes fee sharing)",
			"the receipt is the transaction's reported result; the ledger model trusts status/stepUsed/stepPrice and checks their consequences and bounds",
			"account trie iteration (trie_manager.NewImmutableForObject over state.AccountType) enumerates every account",
		},
		TimeoutSec: func(t string) int {
			if t == ev.Thorough {
				return 3000
			}
			return 900
		},
		Run: run,
	})
}

type txKind int

const (
	kTransfer txKind = iota
	kMessage
	kCallOK
	kCallUnknown
	kCallDenied
	kCallValue
	kTransferToContract
)

var kindNames = []string{"transfer", "message", "call-ok", "call-unknown-method", "call-denied", "call-with-value", "transfer-to-contract-address"}

type planTx struct {
	kind      txKind
	from      int // wallet index, -1 = governance
	to        module.Address
	value     *big.Int
	stepLimit *big.Int
	dataLen   int
	minStep   int64
	valueCls  string
	limitCls  string
	tx        module.Transaction
}

type env struct {
	st         *feefix.Stack
	price      *big.Int
	defCost    int64
	inputCost  int64
	callCost   int64
	invokeLim  int64
	chainScore *common.Address
	fresh      []module.Address
	conc       int
	mu         sync.Mutex
	scripts    map[string]*script
	injected   int
	overtook   int
}

// script of the platform's OnTransactionEnd hook for one transaction.
type script struct {
	signal  chan struct{} // closed when this transaction reached the end of its execution
	waitFor chan struct{} // first execution: wait for this (or 40 ms), then fail once with ExecutionFailError
	fired   bool
}

// hook runs inside Platform.OnTransactionEnd: schedule perturbation and
// injection of one retryable executor failure (what an EE crash yields: the
// executor resets the transaction's state and runs it again).
func (e *env) hook(idx int32, id []byte) error {
	e.mu.Lock()
	sc := e.scripts[string(id)]
	if sc == nil {
		e.mu.Unlock()
		return nil
	}
	if sc.signal != nil {
		select {
		case <-sc.signal:
		default:
			close(sc.signal)
		}
	}
	if sc.fired || (sc.waitFor == nil && sc.signal != nil) {
		e.mu.Unlock()
		return nil
	}
	sc.fired = true
	e.injected++
	w := sc.waitFor
	e.mu.Unlock()
	if w != nil {
		select {
		case <-w:
			e.mu.Lock()
			e.overtook++
			e.mu.Unlock()
		case <-time.After(40 * time.Millisecond):
		}
	}
	return errors.ExecutionFailError.New("verif: injected executor failure")
}

func pickPrice(r *rand.Rand) *big.Int {
	switch r.Intn(6) {
	case 0:
		return big.NewInt(0)
	case 1, 2:
		return big.NewInt(1)
	default:
		return big.NewInt(12500000000)
	}
}

func newEnv(r *rand.Rand) (*env, error) {
	e := &env{scripts: map[string]*script{}, conc: 1}
	if r.Intn(5) < 2 {
		e.conc = 4 // the concurrent executor (chain concurrency level)
	}
	e.price = pickPrice(r)
	e.defCost = []int64{100000, 1000, 100000, 7}[r.Intn(4)]
	e.inputCost = []int64{200, 0, 3, 200}[r.Intn(4)]
	e.callCost = []int64{25000, 25000, 100, 0}[r.Intn(4)]
	if r.Intn(3) == 0 {
		// an invoke limit that truncates generous step limits
		e.invokeLim = e.defCost*2 + e.inputCost*300 + e.callCost
	} else {
		e.invokeLim = 2500000000
	}
	unit := new(big.Int).Mul(big.NewInt(e.defCost+e.inputCost*100+e.callCost+1), e.price)
	if unit.Sign() == 0 {
		unit = big.NewInt(1000)
	}
	var bal []*big.Int
	for i := 0; i < 8; i++ {
		var b *big.Int
		switch i {
		case 0, 1:
			b = new(big.Int).Mul(unit, big.NewInt(int64(1000+r.Intn(100000))))
		case 2:
			b = new(big.Int)
		case 3:
			b = new(big.Int).Add(unit, big.NewInt(int64(r.Intn(1000)))) // about one transaction's worth
		default:
			b = new(big.Int).Mul(unit, big.NewInt(int64(r.Intn(12))))
			b.Add(b, big.NewInt(int64(r.Intn(100000))))
		}
		bal = append(bal, b)
	}
	st, err := feefix.New(feefix.Config{
		StepPrice:   e.price,
		StepCosts:   map[string]int64{"default": e.defCost, "input": e.inputCost, "contractCall": e.callCost, "get": 1, "set": 2, "eventLog": 3, "apiCall": 4},
		StepLimits:  map[string]int64{"invoke": e.invokeLim, "query": 50000000},
		Balances:    bal,
		GovBalance:  new(big.Int).Mul(unit, big.NewInt(1000000)),
		Concurrency: e.conc,
		TxEndHook:   e.hook,
	})
	if err != nil {
		return nil, err
	}
	e.st = st
	e.chainScore = common.MustNewAddressFromString("cx0000000000000000000000000000000000000000")
	for i := 0; i < 3; i++ {
		e.fresh = append(e.fresh, wallet.New().Address())
	}
	return e, nil
}

func (e *env) wallet(i int) module.Wallet {
	if i < 0 {
		return e.st.Gov
	}
	return e.st.Wallets[i]
}

// compactJSONLen of the data field as the transaction will carry it.
func msgData(n int, r *rand.Rand) (string, int) {
	b := make([]byte, n)
	r.Read(b)
	s := "0x" + hex.EncodeToString(b)
	return s, len(s) + 2 // with the quotes
}

// plan makes one transaction given the model balance of the sender.
func (e *env) plan(r *rand.Rand, bal map[string]*big.Int, ts int64, nonce int64, allowBelowMin bool) *planTx {
	p := &planTx{}
	p.from = r.Intn(len(e.st.Wallets))
	if r.Intn(3) == 0 {
		p.from = r.Intn(2) // rich senders: several transactions of one sender per block
	}
	k := r.Intn(100)
	if e.conc > 1 {
		// no contract calls under the concurrent executor: on the unchanged tree
		// CallHandler.Prepare -> contractManager.PrepareContractStore has a data
		// race (storageCache.status) and contractStoreImpl.Dispose can block for
		// ever for system SCORE calls (found here; outside this property)
		k = r.Intn(60)
	}
	var data interface{}
	dataType := ""
	callBytes := 0
	switch {
	case k < 45:
		p.kind = kTransfer
		switch r.Intn(10) {
		case 0:
			p.to = e.wallet(p.from).Address() // self
		case 1, 2:
			p.to = e.fresh[r.Intn(len(e.fresh))]
		case 3:
			p.to = e.st.Treasury
		default:
			p.to = e.wallet(r.Intn(len(e.st.Wallets))).Address()
		}
	case k < 60:
		p.kind = kMessage
		p.to = e.wallet(r.Intn(len(e.st.Wallets))).Address()
		p.dataLen = []int{0, 1, 10, 100, 600}[r.Intn(5)]
		s, n := msgData(p.dataLen, r)
		data, dataType, callBytes = s, "message", n
	case k < 68:
		p.kind = kCallOK
		p.from = -1
		p.to = e.chainScore
		m := map[string]interface{}{"method": "setRoundLimitFactor", "params": map[string]interface{}{"factor": fmt.Sprintf("0x%x", 2+r.Intn(5))}}
		data, dataType = m, "call"
	case k < 78:
		p.kind = kCallUnknown
		p.to = e.chainScore
		data, dataType = map[string]interface{}{"method": "noSuchMethod" + fmt.Sprint(r.Intn(10))}, "call"
	case k < 86:
		p.kind = kCallDenied
		p.to = e.chainScore
		data, dataType = map[string]interface{}{"method": "setStepPrice", "params": map[string]interface{}{"price": "0x0"}}, "call"
	case k < 93:
		p.kind = kCallValue
		p.to = e.chainScore
		data, dataType = map[string]interface{}{"method": "getRevision"}, "call"
	default:
		p.kind = kTransferToContract
		var a common.Address
		id := make([]byte, 20)
		r.Read(id)
		a.SetTypeAndID(true, id)
		p.to = &a
	}
	if dataType == "call" {
		tmp, _ := feefix.CompactJSONLen(data)
		callBytes = tmp
	}
	p.minStep = e.defCost + e.inputCost*int64(callBytes)

	// step limit classes
	full := p.minStep + e.callCost + 2000
	switch lc := r.Intn(12); {
	case lc == 0 && allowBelowMin && p.minStep > 0:
		p.stepLimit, p.limitCls = big.NewInt(p.minStep-1), "min-1"
	case lc <= 2:
		p.stepLimit, p.limitCls = big.NewInt(p.minStep), "min"
	case lc == 3 && (p.kind == kCallOK || p.kind == kCallDenied || p.kind == kCallValue) && e.callCost > 1:
		p.stepLimit, p.limitCls = big.NewInt(p.minStep+1+r.Int63n(e.callCost-1)), "between-min-and-call"
	case lc <= 6:
		p.stepLimit, p.limitCls = big.NewInt(full), "enough"
	case lc <= 9:
		p.stepLimit, p.limitCls = big.NewInt(full*(2+r.Int63n(50))), "generous"
	default:
		p.stepLimit, p.limitCls = big.NewInt(e.invokeLim+1+r.Int63n(1000000)), "above-invoke-limit"
	}

	// value classes relative to the sender's model balance
	b := bal[string(e.wallet(p.from).Address().ID())]
	if b == nil {
		b = new(big.Int)
	}
	maxFee := new(big.Int).Mul(p.stepLimit, e.price)
	room := new(big.Int).Sub(b, maxFee) // what may be sent so that balance >= value + stepLimit*price
	withValue := p.kind == kTransfer || p.kind == kCallValue || p.kind == kTransferToContract || (p.kind == kMessage && r.Intn(3) == 0)
	if !withValue {
		if r.Intn(2) == 0 {
			p.value, p.valueCls = nil, "none"
		} else {
			p.value, p.valueCls = new(big.Int), "zero"
		}
	} else {
		switch vc := r.Intn(12); {
		case vc == 0:
			p.value, p.valueCls = new(big.Int), "zero"
		case vc <= 3 && room.Sign() > 0:
			p.value, p.valueCls = new(big.Int).Set(room), "exactly-balance-minus-max-fee"
		case vc == 4 && room.Sign() >= 0:
			p.value, p.valueCls = new(big.Int).Add(room, big.NewInt(1)), "balance-minus-max-fee-plus-1"
		case vc == 5:
			p.value, p.valueCls = new(big.Int).Add(b, big.NewInt(1+r.Int63n(1000))), "more-than-balance"
		case vc == 6 && b.Sign() > 0:
			p.value, p.valueCls = new(big.Int).Set(b), "whole-balance"
		default:
			if room.Sign() > 0 {
				p.value = new(big.Int).Rand(r, room)
				p.valueCls = "within-room"
			} else {
				p.value, p.valueCls = big.NewInt(1+r.Int63n(100)), "small-without-room"
			}
		}
	}
	tx, err := feefix.SignedTx(feefix.TxSpec{From: e.wallet(p.from), To: p.to, Value: p.value, StepLimit: p.stepLimit, Timestamp: ts,
		Nonce: big.NewInt(nonce), DataType: dataType, Data: data})
	if err != nil {
		panic(err)
	}
	p.tx = tx
	return p
}

func val(v *big.Int) *big.Int {
	if v == nil {
		return new(big.Int)
	}
	return v
}

// prevalidates mirrors the cumulative pre-validation rule used only to steer
// the generator towards blocks that a validating node accepts.
func (e *env) prevalidates(pre map[string]*big.Int, p *planTx) bool {
	if p.stepLimit.Int64() < p.minStep {
		return false
	}
	need := new(big.Int).Mul(p.stepLimit, e.price)
	need.Add(need, val(p.value))
	fk := string(e.wallet(p.from).Address().ID())
	if pre[fk] == nil {
		pre[fk] = new(big.Int)
	}
	if pre[fk].Cmp(need) < 0 {
		return false
	}
	pre[fk] = new(big.Int).Sub(pre[fk], need)
	tk := string(p.to.ID())
	if pre[tk] == nil {
		pre[tk] = new(big.Int)
	}
	pre[tk] = new(big.Int).Add(pre[tk], val(p.value))
	return true
}

type wtx struct {
	Kind      string `json:"kind"`
	From      string `json:"from"`
	To        string `json:"to"`
	Value     string `json:"value"`
	StepLimit string `json:"stepLimit"`
	DataBytes int    `json:"data_bytes,omitempty"`
	Status    string `json:"status,omitempty"`
	StepUsed  string `json:"stepUsed,omitempty"`
	StepPrice string `json:"stepPrice,omitempty"`
	TxJSON    string `json:"tx,omitempty"`
}

func run(c *ev.Ctx) {
	c.Cases(func(ci int, r *rand.Rand) {
		e, err := newEnv(r)
		if err != nil {
			c.Violation("harness.setup", err.Error())
			return
		}
		defer e.st.Close()
		c.Note("env price=%s default=%d input=%d call=%d invokeLimit=%d", e.price, e.defCost, e.inputCost, e.callCost, e.invokeLim)
		parent := e.st.Base
		ts := int64(1000000)
		nonce := int64(0)
		for bi := 0; bi < 3 && !c.Stopped(); bi++ {
			ts += 1000
			nb := e.block(c, r, parent, ts, &nonce)
			if nb != nil {
				parent = nb
			}
		}
	})
}

func balancesOf(e *env, b *feefix.Block) (map[string]*feefix.Account, error) {
	ws, err := b.Snapshot()
	if err != nil {
		return nil, err
	}
	return e.st.Accounts(ws)
}

func (e *env) block(c *ev.Ctx, r *rand.Rand, parent *feefix.Block, ts int64, nonce *int64) *feefix.Block {
	before, err := balancesOf(e, parent)
	if err != nil {
		c.Violation("harness.snapshot", err.Error())
		return nil
	}
	// balances by address id for the generator (known addresses only)
	known := map[string]module.Address{}
	for _, w := range e.st.Wallets {
		known[string(w.Address().ID())] = w.Address()
	}
	known[string(e.st.Gov.Address().ID())] = e.st.Gov.Address()
	known[string(e.st.Treasury.ID())] = e.st.Treasury
	for _, a := range e.fresh {
		known[string(a.ID())] = a
	}
	known[string(e.chainScore.ID())] = e.chainScore
	balByID := func(m map[string]*feefix.Account) map[string]*big.Int {
		out := map[string]*big.Int{}
		for id, a := range known {
			if acc, ok := m[feefix.AccountKey(a)]; ok {
				out[id] = new(big.Int).Set(acc.Balance)
			} else {
				out[id] = new(big.Int)
			}
		}
		return out
	}
	gen := balByID(before)
	pre := balByID(before)

	validated := r.Intn(5) < 2
	wantInvalid := !validated && r.Intn(6) == 0
	n := 1 + r.Intn(24)
	var plan []*planTx
	pattern := e.conc > 1 && r.Intn(3) != 0
	if pattern {
		// Lock-chain pattern for the concurrent executor: T0 X->A (its first
		// execution ends in an injected executor failure after a pause, so it
		// is reset and re-run), T1 Y->A of a sender without funds (fails before
		// touching A), T2 A->Z, then unrelated transactions that keep the
		// dispatcher busy. Whatever the interleaving, the ledger must hold.
		validated, wantInvalid, n = true, false, 0
		mk := func(from int, to module.Address, v int64) *planTx {
			*nonce++
			p := &planTx{kind: kTransfer, from: from, to: to, value: big.NewInt(v), stepLimit: big.NewInt(e.defCost + 1000),
				minStep: e.defCost, valueCls: "pattern", limitCls: "enough"}
			tx, err := feefix.SignedTx(feefix.TxSpec{From: e.wallet(from), To: to, Value: p.value, StepLimit: p.stepLimit, Timestamp: ts, Nonce: big.NewInt(*nonce)})
			if err != nil {
				panic(err)
			}
			p.tx = tx
			return p
		}
		a := e.wallet(1).Address()
		t0 := mk(0, a, int64(1+r.Intn(1000)))
		t1 := mk(2, a, int64(1+r.Intn(1000))) // wallet 2 owns nothing
		t2 := mk(1, e.fresh[r.Intn(len(e.fresh))], int64(1+r.Intn(1000)))
		plan = append(plan, t0, t1, t2)
		for i := 0; i < 8+r.Intn(6); i++ {
			plan = append(plan, mk(3+r.Intn(5), wallet.New().Address(), int64(r.Intn(50))))
		}
		done := make(chan struct{})
		e.mu.Lock()
		e.scripts[string(t2.tx.ID())] = &script{signal: done}
		e.scripts[string(t0.tx.ID())] = &script{waitFor: done}
		e.mu.Unlock()
		c.Count("conc_pattern_blocks", 1)
	}
	for !pattern && len(plan) < n {
		*nonce++
		p := e.plan(r, gen, ts-int64(r.Intn(500)), *nonce, validated || wantInvalid)
		if !validated && !wantInvalid {
			// keep only what cumulative pre-validation accepts
			trial := map[string]*big.Int{}
			for k, v := range pre {
				trial[k] = v
			}
			if !e.prevalidates(trial, p) {
				if r.Intn(4) == 0 {
					n-- // give up on this slot now and then so that poor setups terminate
				}
				continue
			}
			pre = trial
		}
		if validated && p.stepLimit.Int64() < p.minStep {
			// the statement's bound "minimum charge <= stepUsed <= stepLimit" presumes what validation enforces
			continue
		}
		plan = append(plan, p)
		// generator's running view: assume success for plain transfers (only steers value classes)
		fk := string(e.wallet(p.from).Address().ID())
		spent := new(big.Int).Mul(big.NewInt(p.minStep), e.price)
		if p.kind == kTransfer || p.kind == kMessage {
			spent.Add(spent, val(p.value))
			tk := string(p.to.ID())
			if gen[tk] == nil {
				gen[tk] = new(big.Int)
			}
			gen[tk] = new(big.Int).Add(gen[tk], val(p.value))
		}
		gen[fk] = new(big.Int).Sub(gen[fk], spent)
		if gen[fk].Sign() < 0 {
			gen[fk] = new(big.Int)
		}
	}
	if len(plan) == 0 {
		return nil
	}
	if !pattern {
		for _, p := range plan {
			if r.Intn(25) == 0 {
				e.mu.Lock()
				e.scripts[string(p.tx.ID())] = &script{}
				e.mu.Unlock()
			}
		}
	}
	txs := make([]module.Transaction, len(plan))
	wit := make([]wtx, len(plan))
	for i, p := range plan {
		txs[i] = p.tx
		wit[i] = wtx{Kind: kindNames[p.kind], From: e.wallet(p.from).Address().String(), To: p.to.String(), Value: val(p.value).String(),
			StepLimit: p.stepLimit.String(), DataBytes: p.dataLen}
		js, _ := p.tx.ToJSON(module.JSONVersionLast)
		wit[i].TxJSON = feefix.JSONString(js)
	}
	c.Note("block validated=%v ts=%d txs=%s", validated, ts, feefix.JSONString(wit))
	c.Eval(len(plan))

	blk := e.st.Exec(parent, txs, ts, validated)
	if blk.ValidateErr != nil {
		c.Count("blocks_refused_at_validation", 1)
		if !wantInvalid && !validated {
			c.Count("blocks_refused_unexpectedly", 1)
			c.Notef("unexpected refusal: %v", blk.ValidateErr)
		}
		return nil
	}
	if blk.ExecErr != nil {
		c.Violation("execution.block-error", map[string]interface{}{"err": blk.ExecErr.Error(), "txs": wit, "validated": validated})
		return nil
	}
	rcts, err := blk.Receipts()
	if err != nil || len(rcts) != len(plan) {
		c.Violation("execution.receipt-count", map[string]interface{}{"err": fmt.Sprint(err), "receipts": len(rcts), "txs": len(plan)})
		return nil
	}
	after, err := balancesOf(e, blk)
	if err != nil {
		c.Violation("harness.snapshot", err.Error())
		return nil
	}
	c.Count("blocks_executed", 1)
	e.mu.Lock()
	c.Count("executor_failures_injected", e.injected)
	c.Count("conc_pattern_successor_overtook_running_predecessor", e.overtook)
	e.injected, e.overtook = 0, 0
	e.mu.Unlock()
	if e.conc > 1 {
		c.Count("blocks_concurrent_executor", 1)
	}
	if pattern && rcts[1].Status() != module.StatusSuccess {
		c.Count("conc_pattern_middle_tx_failed_before_touching_shared_account", 1)
	}
	if validated {
		c.Count("blocks_validated_true", 1)
	} else {
		c.Count("blocks_validated_false", 1)
	}
	if e.price.Sign() > 0 {
		c.Count("price_nonzero_blocks", 1)
	}

	// ---- the ledger, replayed from the receipts ----
	model := map[string]*big.Int{} // by account trie key
	for k, a := range before {
		model[k] = new(big.Int).Set(a.Balance)
	}
	get := func(a module.Address) *big.Int {
		k := feefix.AccountKey(a)
		if model[k] == nil {
			model[k] = new(big.Int)
		}
		return model[k]
	}
	fees := new(big.Int)
	base := map[string]interface{}{"price": e.price.String(), "default_step": e.defCost, "input_step": e.inputCost, "call_step": e.callCost,
		"invoke_limit": e.invokeLim, "validated": validated, "block_ts": ts}
	witness := func(i int, extra map[string]interface{}) map[string]interface{} {
		m := map[string]interface{}{"env": base, "txs": wit, "index": i}
		for k, v := range extra {
			m[k] = v
		}
		return m
	}
	failed, perSender := 0, map[int]int{}
	var desc []string
	for i, p := range plan {
		rc := rcts[i]
		used, price, st := rc.StepUsed(), rc.StepPrice(), rc.Status()
		wit[i].Status, wit[i].StepUsed, wit[i].StepPrice = st.String(), used.String(), price.String()
		fee := new(big.Int).Mul(used, price)
		c.Count("tx_executed", 1)
		c.Count("tx_status_"+st.String(), 1)
		perSender[p.from]++
		desc = append(desc, fmt.Sprintf("%s/%s/%s/%s", kindNames[p.kind], st, p.valueCls, p.limitCls))
		if st == module.StatusSuccess {
			c.Count("tx_success", 1)
			switch p.kind {
			case kTransfer, kMessage:
				c.Count("tx_transfer_success", 1)
			default:
				c.Count("tx_call_success", 1)
			}
		} else {
			failed++
			c.Count("tx_failed", 1)
			if val(p.value).Sign() > 0 && (p.kind == kCallValue || p.kind == kTransferToContract) {
				c.Count("tx_value_call_failed", 1)
			}
		}
		// the receipt's price is the configured one, or 0 for an uncharged out-of-balance failure
		if price.Cmp(e.price) != 0 {
			if price.Sign() == 0 && st == module.StatusOutOfBalance {
				c.Count("tx_uncharged_out_of_balance", 1)
			} else {
				c.Violation("receipt.step-price-unexpected", witness(i, map[string]interface{}{"receipt_price": price.String()}))
			}
		}
		// bounds on stepUsed for charged transactions
		if price.Sign() > 0 {
			if used.Cmp(big.NewInt(e.defCost)) < 0 {
				c.Violation("stepused.below-minimum-charge", witness(i, nil))
			}
		}
		if price.Sign() > 0 || st == module.StatusSuccess {
			lim := new(big.Int).Set(p.stepLimit)
			if lim.Cmp(big.NewInt(e.invokeLim)) > 0 {
				lim = big.NewInt(e.invokeLim)
				c.Count("invoke_limit_truncation", 1)
			}
			if used.Cmp(lim) > 0 {
				if used.Cmp(p.stepLimit) > 0 {
					c.Violation("stepused.above-steplimit", witness(i, nil))
				} else {
					c.Violation("stepused.above-invoke-limit", witness(i, nil))
				}
			}
		}
		if st == module.StatusSuccess && p.minStep > used.Int64() {
			// a successful transaction pays at least default + input steps (independent bound)
			c.Violation("stepused.success-below-default-plus-input", witness(i, map[string]interface{}{"min_step": p.minStep}))
		}
		// debit the fee
		fb := get(e.wallet(p.from).Address())
		fb.Sub(fb, fee)
		fees.Add(fees, fee)
		if fb.Sign() < 0 {
			c.Violation("negative.sender-after-fee", witness(i, map[string]interface{}{"model_balance": fb.String()}))
		}
		// move the value iff the result is success
		if st == module.StatusSuccess && val(p.value).Sign() > 0 {
			fb.Sub(fb, p.value)
			if fb.Sign() < 0 {
				c.Violation("negative.sender-after-value", witness(i, map[string]interface{}{"model_balance": fb.String()}))
			}
			tb := get(p.to)
			tb.Add(tb, p.value)
		}
	}
	tb := get(e.st.Treasury)
	tb.Add(tb, fees)

	// ---- compare with every account of the resulting trie ----
	keys := map[string]bool{}
	for k := range model {
		keys[k] = true
	}
	for k := range after {
		keys[k] = true
	}
	names := map[string]string{}
	for _, a := range known {
		names[feefix.AccountKey(a)] = a.String()
	}
	sorted := make([]string, 0, len(keys))
	for k := range keys {
		sorted = append(sorted, k)
	}
	sort.Strings(sorted)
	sumAfter := new(big.Int)
	for _, k := range sorted {
		c.Count("accounts_compared", 1)
		want := model[k]
		if want == nil {
			want = new(big.Int)
		}
		got := new(big.Int)
		if a, ok := after[k]; ok {
			got = a.Balance
		}
		sumAfter.Add(sumAfter, got)
		if got.Sign() < 0 {
			c.Violation("negative.balance-in-state", witness(-1, map[string]interface{}{"account": names[k], "key": k, "balance": got.String()}))
		}
		if got.Cmp(want) != 0 {
			role := "other-account"
			switch {
			case k == feefix.AccountKey(e.st.Treasury):
				role = "treasury"
			default:
				for _, p := range plan {
					if k == feefix.AccountKey(e.wallet(p.from).Address()) {
						role = "sender"
						break
					}
					if k == feefix.AccountKey(p.to) {
						role = "recipient"
					}
				}
			}
			c.Violation("ledger.mismatch."+role, witness(-1, map[string]interface{}{"account": names[k], "key": k, "state_balance": got.String(),
				"ledger_balance": want.String(), "diff_state_minus_ledger": new(big.Int).Sub(got, want).String(), "sum_of_fees": fees.String()}))
		}
	}
	if sumBefore := feefix.SumBalances(before); sumAfter.Cmp(sumBefore) != 0 {
		c.Violation("conservation.sum-changed", witness(-1, map[string]interface{}{"sum_before": sumBefore.String(), "sum_after": sumAfter.String()}))
	}
	multi := false
	for _, n := range perSender {
		if n > 1 {
			multi = true
		}
	}
	if e.price.Sign() > 0 && (failed > 0 || multi) {
		c.NonTrivial(fmt.Sprintf("p%s|%v|%s", e.price, validated, strings.Join(desc, ";")))
	}
	if c.WantSample() && failed > 0 && len(plan) <= 6 {
		c.Sample(map[string]interface{}{"env": base, "txs": wit, "sum_of_fees": fees.String()})
	}
	return blk
}
