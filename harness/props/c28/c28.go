// Package c28: the hexary block-hash accumulator (icon/merkle/hexary) is
// deterministic, provable and rewindable.
package c28

import (
	"bytes"
	"encoding/hex"
	"fmt"
	"math/rand"
	"sort"

	"github.com/icon-project/goloop/common/db"
	"github.com/icon-project/goloop/icon/merkle/hexary"
	"golang.org/x/crypto/sha3"

	"verif/lib/ev"
)

func nCases(tier string) int {
	if tier == ev.Thorough {
		return 600
	}
	return 60
}

func init() {
	ev.Register(&ev.Prop{
		ID:    "C28",
		Level: "exploration",
		Cases: nCases,
		Batches: func(t string) int {
			if t == ev.Thorough {
				return 16
			}
			return 12
		},
		Rule: "case = one sequence of n distinct random 32-byte hashes; quick n = 1..40, 255,256,257, 4095,4096,4097 and 11 random n <= 5000 (thorough: 1..300, every 16^k-2..16^k+2 for k<=4 incl. 65534..65538, random <= 5000, a few <= 70000). Per case: (a) headers of two accumulations (one re-opened from its buckets at PRNG-chosen points, one on fresh buckets) are compared with each other and with an independently computed header (own SHA3-256 hexary tree, groups of 16 bottom-up) at every prefix (n<=300) or at boundary+random prefixes; (b) Prove(i,0) for every i (n<=300) or boundary+random i must be accepted by a FRESH tree over an empty bucket, and so must the harness' own reference proof; Prove(i,-1) must be accepted when all keys are added in increasing order; (c) altered inputs (hash bit flip, neighbour's hash, proof-node bit flip, node truncated/extended by one hash, dropped first/last node, swapped nodes, extra leading/trailing node, wrong key) must be rejected with an error, not accepted and not crash; (c2) three fresh builders per case are first fed adds that must be rejected (premature Prove(j,-1) whose omitted branches the builder never saw, proof-less adds with right/wrong/empty/nil hash) and then - with further bogus proof-less adds interleaved - the complete in-order stream of incremental proofs, all of which must still be accepted; (d) SetLen(m) for every m<n (n<=300) or boundary+random m: Len and header must equal the header of accumulating only the prefix, then different hashes are re-added and headers and proofs are re-checked, then the original suffix is restored. Non-trivial = distinct (n,i,alteration) and (n,m) evaluated with n>=2.",
		MinNonTrivial: func(t string) int {
			if t == ev.Thorough {
				return 300000
			}
			return 10000
		},
		Required: []string{"headers_checked", "headers_determinism_checked", "reopen_points", "proofs_accepted_fresh", "reference_proofs_accepted", "incremental_proofs_accepted", "altered_rejected", "premature_adds_rejected", "proofless_adds_rejected", "incremental_after_rejected_adds_accepted", "rewinds_checked", "rewind_to_power_of_16", "rewind_then_different_hashes", "setlen_too_large_rejected", "lengths_crossing_16", "lengths_crossing_256", "lengths_crossing_4096"},
		Assumptions: []string{"golang.org/x/crypto/sha3 (called directly by the harness) is the reference hash", "db.NewMapDB buckets are faithful key-value stores", "leaf hashes are distinct 32-byte strings"},
		TimeoutSec: func(t string) int {
			if t == ev.Thorough {
				return 3000
			}
			return 600
		},
		Run: run,
	})
}

func lengthFor(tier string, ci int, r *rand.Rand) int {
	if tier != ev.Thorough {
		fixed := []int{}
		for n := 1; n <= 40; n++ {
			fixed = append(fixed, n)
		}
		fixed = append(fixed, 255, 256, 257, 4095, 4096, 4097)
		if ci < len(fixed) {
			return fixed[ci]
		}
		if ci%3 == 0 {
			return 258 + r.Intn(600)
		}
		return 41 + r.Intn(4960)
	}
	if ci < 300 {
		return ci + 1
	}
	b := []int{}
	for _, p := range []int{16, 256, 4096, 65536} {
		for d := -2; d <= 2; d++ {
			b = append(b, p+d)
		}
	}
	b = append(b, 511, 512, 513, 8191, 8192, 8193, 4111, 4112, 4113, 4351, 4352, 4353)
	if ci-300 < len(b) {
		return b[ci-300]
	}
	if ci%97 == 0 {
		return 5000 + r.Intn(65000)
	}
	return 301 + r.Intn(4700)
}

// ---------------------------------------------------------------- reference

func h256(b []byte) []byte {
	h := sha3.Sum256(b)
	return h[:]
}

// refTree is the hexary tree over a sequence, written from the definition:
// leaves are grouped in 16s, each group is a node whose hash is
// SHA3-256(concatenation of its children), repeated until one node is left;
// the header's root hash is the hash of that node (the leaf itself for n=1).
type refTree struct {
	n      int
	levels [][][]byte // levels[0] = leaves, levels[k] = hashes of the nodes over levels[k-1]
	nodes  [][][]byte // nodes[k][j] = bytes of node j over levels[k]   (k = 0..len(levels)-2)
}

func buildRef(leaves [][]byte) *refTree {
	t := &refTree{n: len(leaves)}
	cur := leaves
	t.levels = append(t.levels, cur)
	for len(cur) > 1 {
		var next, nodes [][]byte
		for o := 0; o < len(cur); o += 16 {
			e := o + 16
			if e > len(cur) {
				e = len(cur)
			}
			nb := bytes.Join(cur[o:e], nil)
			nodes = append(nodes, nb)
			next = append(next, h256(nb))
		}
		t.nodes = append(t.nodes, nodes)
		t.levels = append(t.levels, next)
		cur = next
	}
	// n = 2..16: one node, loop ends with len(next)==1 (root = its hash). n=1: root = leaf.
	return t
}

func (t *refTree) root() []byte {
	if t.n == 0 {
		return nil
	}
	top := t.levels[len(t.levels)-1]
	return top[0]
}

// proof returns the node bytes on the path from the root node down to the
// node holding leaf i.
func (t *refTree) proof(i int) [][]byte {
	var out [][]byte
	for k := len(t.nodes) - 1; k >= 0; k-- {
		j := i
		for x := 0; x <= k; x++ {
			j /= 16
		}
		out = append(out, t.nodes[k][j])
	}
	return out
}

// ---------------------------------------------------------------- case

type cs struct {
	c      *ev.Ctx
	r      *rand.Rand
	n      int
	desc   string
	seed   int64
	leaves [][]byte
}

func (s *cs) viol(key string, extra map[string]interface{}) {
	if extra == nil {
		extra = map[string]interface{}{}
	}
	extra["case"] = s.desc
	if len(s.leaves) <= 40 {
		hs := make([]string, len(s.leaves))
		for i, l := range s.leaves {
			hs[i] = hex.EncodeToString(l)
		}
		extra["hashes"] = hs
	} else {
		extra["hashes"] = "regenerated from case_seed by the replay command (leaf k = 32 PRNG bytes with bytes 0..2 = k little-endian; hashes re-added after a rewind = SHA3-256(\"<case_seed>/<k>/<generation>\"))"
	}
	s.c.Violation(key, extra)
}

func bucket() db.Bucket {
	bk, err := db.NewMapDB().GetBucket("")
	if err != nil {
		panic(err)
	}
	return bk
}

func hdrEq(h *hexary.MerkleHeader, root []byte, n int) bool {
	return h != nil && h.Leaves == int64(n) && bytes.Equal(h.RootHash, root)
}

func hdrStr(h *hexary.MerkleHeader) string {
	if h == nil {
		return "nil"
	}
	return fmt.Sprintf("{%x,%d}", h.RootHash, h.Leaves)
}

func (s *cs) checkHeader(acc hexary.Accumulator, seq [][]byte, where string) bool {
	ref := buildRef(seq)
	h1 := acc.GetMerkleHeader()
	h2 := acc.GetMerkleHeader()
	if acc.Len() != int64(len(seq)) {
		s.viol("len."+where, map[string]interface{}{"got": acc.Len(), "want": len(seq)})
		return false
	}
	if !hdrEq(h1, ref.root(), len(seq)) {
		s.viol("header.differs-from-reference."+where, map[string]interface{}{"prefix": len(seq), "got": hdrStr(h1), "want_root": hex.EncodeToString(ref.root())})
		return false
	}
	if !hdrEq(h2, ref.root(), len(seq)) {
		s.viol("header.changes-on-second-read."+where, map[string]interface{}{"prefix": len(seq), "first": hdrStr(h1), "second": hdrStr(h2)})
		return false
	}
	s.c.Count("headers_checked", 1)
	return true
}

func guard(f func() error) (err error, panicked interface{}) {
	defer func() {
		if p := recover(); p != nil {
			panicked = p
		}
	}()
	return f(), nil
}

type alteration struct {
	name string
	// returns altered (key, hash, proof) or ok=false when not applicable
	f func(s *cs, i int, seq [][]byte, proof [][]byte) (int64, []byte, [][]byte, bool)
}

func cloneProof(p [][]byte) [][]byte {
	out := make([][]byte, len(p))
	for i := range p {
		out[i] = append([]byte(nil), p[i]...)
	}
	return out
}

var alterations = []alteration{
	{"hash-bitflip", func(s *cs, i int, seq, p [][]byte) (int64, []byte, [][]byte, bool) {
		h := append([]byte(nil), seq[i]...)
		h[s.r.Intn(32)] ^= 1 << uint(s.r.Intn(8))
		return int64(i), h, cloneProof(p), true
	}},
	{"hash-of-neighbour", func(s *cs, i int, seq, p [][]byte) (int64, []byte, [][]byte, bool) {
		if len(seq) < 2 {
			return 0, nil, nil, false
		}
		j := i + 1
		if j >= len(seq) {
			j = i - 1
		}
		return int64(i), seq[j], cloneProof(p), true
	}},
	{"hash-truncated", func(s *cs, i int, seq, p [][]byte) (int64, []byte, [][]byte, bool) {
		return int64(i), append([]byte(nil), seq[i][:s.r.Intn(32)]...), cloneProof(p), true
	}},
	{"wrong-key", func(s *cs, i int, seq, p [][]byte) (int64, []byte, [][]byte, bool) {
		if len(seq) < 2 {
			return 0, nil, nil, false
		}
		j := s.r.Intn(len(seq) - 1)
		if j >= i {
			j++
		}
		return int64(j), seq[i], cloneProof(p), true
	}},
	{"proof-node-bitflip", func(s *cs, i int, seq, p [][]byte) (int64, []byte, [][]byte, bool) {
		if len(p) == 0 {
			return 0, nil, nil, false
		}
		q := cloneProof(p)
		k := s.r.Intn(len(q))
		q[k][s.r.Intn(len(q[k]))] ^= 1 << uint(s.r.Intn(8))
		return int64(i), seq[i], q, true
	}},
	{"proof-node-minus-one-hash", func(s *cs, i int, seq, p [][]byte) (int64, []byte, [][]byte, bool) {
		if len(p) == 0 {
			return 0, nil, nil, false
		}
		q := cloneProof(p)
		k := s.r.Intn(len(q))
		q[k] = q[k][:len(q[k])-32]
		return int64(i), seq[i], q, true
	}},
	{"proof-node-plus-one-hash", func(s *cs, i int, seq, p [][]byte) (int64, []byte, [][]byte, bool) {
		if len(p) == 0 {
			return 0, nil, nil, false
		}
		q := cloneProof(p)
		k := s.r.Intn(len(q))
		if len(q[k]) >= 16*32 {
			return 0, nil, nil, false
		}
		q[k] = append(q[k], seq[i]...)
		return int64(i), seq[i], q, true
	}},
	{"proof-node-odd-length", func(s *cs, i int, seq, p [][]byte) (int64, []byte, [][]byte, bool) {
		if len(p) == 0 {
			return 0, nil, nil, false
		}
		q := cloneProof(p)
		k := s.r.Intn(len(q))
		q[k] = q[k][:len(q[k])-1-s.r.Intn(31)]
		return int64(i), seq[i], q, true
	}},
	{"proof-first-node-dropped", func(s *cs, i int, seq, p [][]byte) (int64, []byte, [][]byte, bool) {
		if len(p) == 0 {
			return 0, nil, nil, false
		}
		return int64(i), seq[i], cloneProof(p)[1:], true
	}},
	{"proof-last-node-dropped", func(s *cs, i int, seq, p [][]byte) (int64, []byte, [][]byte, bool) {
		if len(p) == 0 {
			return 0, nil, nil, false
		}
		return int64(i), seq[i], cloneProof(p)[:len(p)-1], true
	}},
	{"proof-nodes-swapped", func(s *cs, i int, seq, p [][]byte) (int64, []byte, [][]byte, bool) {
		if len(p) < 2 || bytes.Equal(p[0], p[1]) {
			return 0, nil, nil, false
		}
		q := cloneProof(p)
		q[0], q[1] = q[1], q[0]
		return int64(i), seq[i], q, true
	}},
	{"proof-extra-leading-node", func(s *cs, i int, seq, p [][]byte) (int64, []byte, [][]byte, bool) {
		extra := append([]byte(nil), seq[i]...)
		if len(p) > 0 && s.r.Intn(2) == 0 {
			extra = append([]byte(nil), p[0]...)
		}
		q := append([][]byte{extra}, cloneProof(p)...)
		return int64(i), seq[i], q, true
	}},
	{"proof-extra-trailing-node", func(s *cs, i int, seq, p [][]byte) (int64, []byte, [][]byte, bool) {
		extra := append([]byte(nil), seq[i]...)
		if len(p) > 0 && s.r.Intn(2) == 0 {
			extra = append([]byte(nil), p[len(p)-1]...)
		}
		q := append(cloneProof(p), extra)
		return int64(i), seq[i], q, true
	}},
}

// checkProofs verifies acceptance of genuine proofs and rejection of altered ones
// for the indices idx of sequence seq whose nodes are in treeBucket.
func (s *cs) checkProofs(treeBucket db.Bucket, hd *hexary.MerkleHeader, seq [][]byte, idx []int, where string, nAlter int) {
	c := s.c
	mt, err := hexary.NewMerkleTree(treeBucket, hd, -1)
	if err != nil {
		s.viol("merkletree.new."+where, map[string]interface{}{"err": err.Error(), "header": hdrStr(hd)})
		return
	}
	ref := buildRef(seq)
	for _, i := range idx {
		if c.Stopped() {
			return
		}
		c.Eval(1)
		var proof [][]byte
		err, pn := guard(func() (e error) { proof, e = mt.Prove(int64(i), 0); return })
		if pn != nil || err != nil {
			s.viol("prove.failed."+where, map[string]interface{}{"n": len(seq), "index": i, "err": fmt.Sprint(err), "panic": fmt.Sprint(pn)})
			continue
		}
		fresh, err := hexary.NewMerkleTree(bucket(), hd, -1)
		if err != nil {
			s.viol("merkletree.new."+where, map[string]interface{}{"err": err.Error()})
			return
		}
		err, pn = guard(func() error { return fresh.Add(int64(i), seq[i], cloneProof(proof)) })
		if pn != nil || err != nil {
			s.viol("proof.rejected-by-fresh-tree."+where, map[string]interface{}{"n": len(seq), "index": i, "err": fmt.Sprint(err), "panic": fmt.Sprint(pn), "proof": proofHex(proof)})
			continue
		}
		c.Count("proofs_accepted_fresh", 1)
		// the harness' own proof, built without goloop
		rp := ref.proof(i)
		fresh2, _ := hexary.NewMerkleTree(bucket(), hd, -1)
		err, pn = guard(func() error { return fresh2.Add(int64(i), seq[i], cloneProof(rp)) })
		if pn != nil || err != nil {
			s.viol("reference-proof.rejected."+where, map[string]interface{}{"n": len(seq), "index": i, "err": fmt.Sprint(err), "panic": fmt.Sprint(pn), "proof": proofHex(rp)})
			continue
		}
		c.Count("reference_proofs_accepted", 1)
		// altered inputs
		for k := 0; k < nAlter; k++ {
			a := alterations[s.r.Intn(len(alterations))]
			key, h, q, ok := a.f(s, i, seq, proof)
			if !ok {
				continue
			}
			c.Eval(1)
			ft, _ := hexary.NewMerkleTree(bucket(), hd, -1)
			err, pn := guard(func() error { return ft.Add(key, h, q) })
			w := map[string]interface{}{"n": len(seq), "index": i, "alteration": a.name, "key": key, "hash": hex.EncodeToString(h), "proof": proofHex(q), "genuine_proof": proofHex(proof), "header": hdrStr(hd)}
			if pn != nil {
				w["panic"] = fmt.Sprint(pn)
				s.viol("altered.panic."+a.name, w)
				c.Count("altered_panics", 1)
				continue
			}
			if err == nil {
				s.viol("altered.accepted."+a.name, w)
				continue
			}
			c.Count("altered_rejected", 1)
			c.Count("altered_rejected_"+a.name, 1)
			c.NonTrivial(fmt.Sprintf("A/%s/%d/%d/%s/%x", where, len(seq), i, a.name, h256(bytes.Join(q, h))))
		}
	}
}

func proofHex(p [][]byte) []string {
	out := make([]string, len(p))
	for i, b := range p {
		if len(b) > 96 {
			out[i] = fmt.Sprintf("%d bytes: %x..%x", len(b), b[:32], b[len(b)-32:])
		} else {
			out[i] = hex.EncodeToString(b)
		}
	}
	return out
}

func (s *cs) checkIncremental(treeBucket db.Bucket, hd *hexary.MerkleHeader, seq [][]byte, where string) {
	mt, err := hexary.NewMerkleTree(treeBucket, hd, -1)
	if err != nil {
		return
	}
	inc, err := hexary.NewMerkleTree(bucket(), hd, -1)
	if err != nil {
		return
	}
	for i := range seq {
		if s.c.Stopped() {
			return
		}
		var proof [][]byte
		err, pn := guard(func() (e error) { proof, e = mt.Prove(int64(i), -1); return })
		if pn != nil || err != nil {
			s.viol("prove-incremental.failed."+where, map[string]interface{}{"n": len(seq), "index": i, "err": fmt.Sprint(err), "panic": fmt.Sprint(pn)})
			return
		}
		err, pn = guard(func() error { return inc.Add(int64(i), seq[i], proof) })
		if pn != nil || err != nil {
			s.viol("incremental-proof.rejected-in-key-order."+where, map[string]interface{}{"n": len(seq), "index": i, "err": fmt.Sprint(err), "panic": fmt.Sprint(pn), "proof": proofHex(proof)})
			return
		}
		s.c.Count("incremental_proofs_accepted", 1)
	}
	s.c.Eval(len(seq))
}

// checkAfterRejectedAdds: a builder over an empty bucket is first fed adds that
// must be rejected - premature incremental proofs (Prove(j,-1) for keys whose
// omitted upper branches the builder has never seen) and proof-less adds with
// the right, a wrong and an empty hash - and then the in-order stream of
// incremental proofs, which must be accepted completely (a rejected add must
// not change what the tree accepts afterwards). During the stream further
// proof-less adds with wrong/empty hashes are interleaved; they can never be right.
func (s *cs) checkAfterRejectedAdds(treeBucket db.Bucket, hd *hexary.MerkleHeader, seq [][]byte) {
	c, r, n := s.c, s.r, len(seq)
	if n < 2 {
		return
	}
	mt, err := hexary.NewMerkleTree(treeBucket, hd, -1)
	if err != nil {
		return
	}
	b, err := hexary.NewMerkleTree(bucket(), hd, -1)
	if err != nil {
		return
	}
	level := hexary.LevelFromLen(int64(n))
	var prelude []string
	bogus := func(j int, kind int, where string) bool {
		var h []byte
		name := ""
		switch kind {
		case 0:
			h, name = []byte{}, "empty-hash"
		case 1:
			h, name = seq[(j+1)%n], "hash-of-other-key"
		default:
			h, name = nil, "nil-hash"
		}
		err, pn := guard(func() error { return b.Add(int64(j), h, nil) })
		prelude = append(prelude, fmt.Sprintf("Add(%d,%s,nil)->%v", j, name, err))
		if pn != nil || err == nil {
			s.viol("proofless-add.accepted."+name+"."+where, map[string]interface{}{"n": n, "key": j, "panic": fmt.Sprint(pn), "sequence": prelude, "header": hdrStr(hd)})
			return false
		}
		c.Count("proofless_adds_rejected", 1)
		return true
	}
	for k := 0; k < 1+r.Intn(4); k++ {
		j := 1 + r.Intn(n-1)
		switch r.Intn(3) {
		case 0: // premature genuine incremental proof
			var proof [][]byte
			err, pn := guard(func() (e error) { proof, e = mt.Prove(int64(j), -1); return })
			if pn != nil || err != nil {
				return
			}
			if len(proof) >= level {
				continue // a full proof: legitimately acceptable
			}
			err, pn = guard(func() error { return b.Add(int64(j), seq[j], proof) })
			prelude = append(prelude, fmt.Sprintf("Add(%d,hash_%d,Prove(%d,-1)[%d of %d nodes])->%v", j, j, j, len(proof), level, err))
			if pn != nil || err == nil {
				s.viol("premature-proof.accepted", map[string]interface{}{"n": n, "key": j, "panic": fmt.Sprint(pn), "sequence": prelude, "header": hdrStr(hd)})
				return
			}
			c.Count("premature_adds_rejected", 1)
		case 1: // right hash, no proof at all
			err, pn := guard(func() error { return b.Add(int64(j), seq[j], nil) })
			prelude = append(prelude, fmt.Sprintf("Add(%d,hash_%d,nil)->%v", j, j, err))
			if pn != nil || err == nil {
				s.viol("proofless-add.accepted.right-hash.before-stream", map[string]interface{}{"n": n, "key": j, "panic": fmt.Sprint(pn), "sequence": prelude, "header": hdrStr(hd)})
				return
			}
			c.Count("proofless_adds_rejected", 1)
		default:
			if !bogus(j, r.Intn(3), "before-stream") {
				return
			}
		}
	}
	interleave := map[int]bool{}
	for k := 0; k < 3; k++ {
		interleave[r.Intn(n)] = true
	}
	for i := range seq {
		if c.Stopped() {
			return
		}
		if interleave[i] {
			if !bogus(r.Intn(n), r.Intn(3), "mid-stream") {
				return
			}
		}
		var proof [][]byte
		err, pn := guard(func() (e error) { proof, e = mt.Prove(int64(i), -1); return })
		if pn != nil || err != nil {
			s.viol("prove-incremental.failed.after-rejected-adds", map[string]interface{}{"n": n, "index": i, "err": fmt.Sprint(err), "panic": fmt.Sprint(pn)})
			return
		}
		err, pn = guard(func() error { return b.Add(int64(i), seq[i], proof) })
		if pn != nil || err != nil {
			s.viol("incremental-proof.rejected-in-key-order.after-rejected-adds", map[string]interface{}{"n": n, "index": i, "err": fmt.Sprint(err), "panic": fmt.Sprint(pn), "proof": proofHex(proof), "rejected_adds_before": prelude, "header": hdrStr(hd)})
			return
		}
		c.Count("incremental_after_rejected_adds_accepted", 1)
	}
	c.Eval(n)
	c.NonTrivial(fmt.Sprintf("S/%d/%x/%v", n, seq[0][:8], prelude))
}

func (s *cs) newHash(gen, k int) []byte {
	return h256([]byte(fmt.Sprintf("%d/%d/%d", s.seed, k, gen)))
}

// pick returns all of 0..n-1 when n<=limit, otherwise boundary and random members.
func (s *cs) pick(n, limit, random int) []int {
	if n <= limit {
		out := make([]int, n)
		for i := range out {
			out[i] = i
		}
		return out
	}
	set := map[int]bool{}
	for _, p := range []int{0, 16, 256, 4096, 65536} {
		for d := -2; d <= 2; d++ {
			set[p+d] = true
		}
	}
	for d := 1; d <= 18; d++ {
		set[n-d] = true
	}
	set[n-256] = true
	set[n-257] = true
	set[(n/16)*16] = true
	set[(n/16)*16-1] = true
	set[(n/256)*256] = true
	set[(n/256)*256-1] = true
	for k := 0; k < random; k++ {
		set[s.r.Intn(n)] = true
	}
	var out []int
	for v := range set {
		if v >= 0 && v < n {
			out = append(out, v)
		}
	}
	sort.Ints(out)
	return out
}

func run(c *ev.Ctx) {
	c.Cases(func(ci int, r *rand.Rand) {
		n := lengthFor(c.Tier, ci, r)
		s := &cs{c: c, r: r, n: n, seed: c.CaseSeed(ci)}
		s.desc = fmt.Sprintf("n=%d case=%d case_seed=%d", n, ci, c.CaseSeed(ci))
		c.Note("%s", s.desc)
		if n > 16 {
			c.Count("lengths_crossing_16", 1)
		}
		if n > 256 {
			c.Count("lengths_crossing_256", 1)
		}
		if n > 4096 {
			c.Count("lengths_crossing_4096", 1)
		}
		if n > 65536 {
			c.Count("lengths_crossing_65536", 1)
		}
		s.leaves = make([][]byte, n)
		for i := range s.leaves {
			b := make([]byte, 32)
			r.Read(b)
			b[0], b[1], b[2] = byte(i), byte(i>>8), byte(i>>16) // distinct
			s.leaves[i] = b
		}
		small := n <= 300
		limit := 300

		// (a) accumulation #1 with re-open points, header at prefixes
		tb, ab := bucket(), bucket()
		acc, err := hexary.NewAccumulator(tb, ab, "")
		if err != nil {
			c.Notef("harness: NewAccumulator: %v", err)
			return
		}
		if !s.checkHeader(acc, nil, "empty") {
			return
		}
		checkAt := map[int]bool{}
		for _, p := range s.pick(n+1, limit+1, 12) {
			checkAt[p] = true
		}
		reopenAt := map[int]bool{}
		for k := 0; k < 1+r.Intn(3); k++ {
			reopenAt[1+r.Intn(n)] = true
		}
		for i := 0; i < n; i++ {
			if err := acc.Add(s.leaves[i]); err != nil {
				s.viol("add.error", map[string]interface{}{"index": i, "err": err.Error()})
				return
			}
			if reopenAt[i+1] {
				acc, err = hexary.NewAccumulator(tb, ab, "")
				if err != nil {
					s.viol("reopen.error", map[string]interface{}{"at": i + 1, "err": err.Error()})
					return
				}
				c.Count("reopen_points", 1)
				if !s.checkHeader(acc, s.leaves[:i+1], "after-reopen") {
					return
				}
			}
			if checkAt[i+1] {
				if !s.checkHeader(acc, s.leaves[:i+1], "prefix") {
					return
				}
			}
		}
		hd, err := acc.Finalize()
		if err != nil {
			s.viol("finalize.error", map[string]interface{}{"err": err.Error()})
			return
		}
		ref := buildRef(s.leaves)
		if !hdrEq(hd, ref.root(), n) {
			s.viol("header.finalize-differs-from-reference", map[string]interface{}{"got": hdrStr(hd), "want_root": hex.EncodeToString(ref.root())})
			return
		}
		if !s.checkHeader(acc, s.leaves, "after-finalize") {
			return
		}
		// accumulation #2 on fresh buckets, no re-open
		tb2, ab2 := bucket(), bucket()
		acc2, _ := hexary.NewAccumulator(tb2, ab2, "other-key")
		for i := 0; i < n; i++ {
			if err := acc2.Add(s.leaves[i]); err != nil {
				s.viol("add.error", map[string]interface{}{"index": i, "err": err.Error()})
				return
			}
		}
		hd2, err := acc2.Finalize()
		if err != nil || !hdrEq(hd2, hd.RootHash, n) {
			s.viol("header.not-deterministic", map[string]interface{}{"first": hdrStr(hd), "second": hdrStr(hd2), "err": fmt.Sprint(err)})
			return
		}
		c.Count("headers_determinism_checked", 1)

		// (b)+(c) proofs
		idx := s.pick(n, limit, 40)
		nAlter := 3
		if !small {
			nAlter = 6
		}
		s.checkProofs(tb, hd, s.leaves, idx, "full", nAlter)
		s.checkIncremental(tb2, hd2, s.leaves, "full")
		for k := 0; k < 3; k++ {
			s.checkAfterRejectedAdds(tb2, hd2, s.leaves)
		}
		for _, i := range idx {
			c.NonTrivial(fmt.Sprintf("P/%d/%d/%x", n, i, s.leaves[i][:8]))
		}

		// (d) rewind
		ms := s.pick(n, limit, 10)
		gen := 0
		for _, m := range ms {
			if c.Stopped() {
				return
			}
			c.Eval(1)
			// too large first: must be refused and change nothing
			if err := acc.SetLen(int64(n + 1 + r.Intn(3))); err == nil {
				s.viol("setlen.accepts-longer-length", map[string]interface{}{"len": n})
				return
			}
			c.Count("setlen_too_large_rejected", 1)
			err, pn := guard(func() error { return acc.SetLen(int64(m)) })
			if pn != nil || err != nil {
				s.viol("setlen.failed", map[string]interface{}{"n": n, "m": m, "err": fmt.Sprint(err), "panic": fmt.Sprint(pn)})
				return
			}
			if !s.checkHeader(acc, s.leaves[:m], "after-setlen") {
				c.Notef("SetLen(%d) from %d", m, n)
				return
			}
			c.Count("rewinds_checked", 1)
			if m > 0 && m&(m-1) == 0 && (m == 1 || m == 16 || m == 256 || m == 4096 || m == 65536) {
				c.Count("rewind_to_power_of_16", 1)
			}
			if n >= 2 {
				c.NonTrivial(fmt.Sprintf("R/%d/%d/%x", n, m, s.leaves[0][:8]))
			}
			// re-open after the rewind (SetLen(0) is not written through; only m>0)
			if m > 0 && r.Intn(4) == 0 {
				acc, err = hexary.NewAccumulator(tb, ab, "")
				if err != nil {
					s.viol("reopen.error", map[string]interface{}{"at": m, "err": err.Error()})
					return
				}
				c.Count("reopen_points", 1)
				if !s.checkHeader(acc, s.leaves[:m], "reopen-after-setlen") {
					return
				}
			}
			// different hashes after the rewind
			if r.Intn(2) == 0 || !small {
				gen++
				k := 1 + r.Intn(20)
				if r.Intn(3) == 0 {
					k = 16 - m%16 + r.Intn(3) // across the next node boundary
				}
				seq := append([][]byte(nil), s.leaves[:m]...)
				for j := 0; j < k; j++ {
					nh := s.newHash(gen, m+j)
					if err := acc.Add(nh); err != nil {
						s.viol("add.error", map[string]interface{}{"index": m + j, "err": err.Error()})
						return
					}
					seq = append(seq, nh)
				}
				if !s.checkHeader(acc, seq, "after-setlen-and-different-hashes") {
					c.Notef("SetLen(%d) from %d then %d new hashes", m, n, k)
					return
				}
				hdx, err := acc.Finalize()
				if err != nil || !hdrEq(hdx, buildRef(seq).root(), len(seq)) {
					s.viol("header.finalize-differs-from-reference.after-setlen", map[string]interface{}{"m": m, "added": k, "got": hdrStr(hdx), "err": fmt.Sprint(err)})
					return
				}
				c.Count("rewind_then_different_hashes", 1)
				// proofs under the new header: last old, first new, last new
				pi := []int{len(seq) - 1, m}
				if m > 0 {
					pi = append(pi, m-1, r.Intn(m))
				}
				s.checkProofs(tb, hdx, seq, pi, "after-rewind", 1)
				// back to the prefix
				if err := acc.SetLen(int64(m)); err != nil {
					s.viol("setlen.failed", map[string]interface{}{"n": len(seq), "m": m, "err": err.Error()})
					return
				}
				if !s.checkHeader(acc, s.leaves[:m], "after-second-setlen") {
					return
				}
				c.Count("rewinds_checked", 1)
			}
			// restore the original suffix
			for i := m; i < n; i++ {
				if err := acc.Add(s.leaves[i]); err != nil {
					s.viol("add.error", map[string]interface{}{"index": i, "err": err.Error()})
					return
				}
			}
			if !s.checkHeader(acc, s.leaves, "after-setlen-and-same-suffix") {
				c.Notef("SetLen(%d) from %d then original suffix", m, n)
				return
			}
		}
		// no-op rewind
		if err := acc.SetLen(int64(n)); err != nil {
			s.viol("setlen.failed", map[string]interface{}{"n": n, "m": n, "err": err.Error()})
			return
		}
		if !s.checkHeader(acc, s.leaves, "after-setlen-to-len") {
			return
		}
		if c.WantSample() {
			c.Sample(map[string]interface{}{"case": s.desc, "header": hdrStr(hd), "proof_indices": len(idx), "rewind_points": len(ms)})
		}
	})
}
