// Package c18: trie proofs are sound and complete.
//
// Shape O: for tries built by the C17 generator every stored key's proof is
// verified by verifiers that have nothing but the root hash (immutable over
// an EMPTY database), by an accumulating verifier (one object, many proofs,
// as consensus/partset uses it) and by the producing trie itself; every
// single-element alteration of a proof, and the proof presented to another
// root, must be rejected; absent keys never yield a value.
package c18

import (
	"bytes"
	"encoding/hex"
	"fmt"
	"math/rand"

	"github.com/icon-project/goloop/common/db"
	"github.com/icon-project/goloop/common/log"

	"verif/lib/ev"
	tg "verif/lib/triegen"
)

func init() {
	ev.Register(&ev.Prop{
		ID:    "C18",
		Level: "exploration",
		Cases: func(t string) int {
			if t == ev.Thorough {
				return 20000
			}
			return 640
		},
		Batches: func(t string) int {
			return 16
		},
		Rule: "each case = one trie of 1-300 keys (C17 generator: prefix-of-other-key, extension, sibling nibble, long shared prefix; values 1-100 bytes around the 32-byte embedding boundary; random snapshot/flush/reload regime; bytes or object API). Up to 24 stored keys: GetProof must be non-nil and Prove must return the model's value on (a) a fresh immutable made from the root hash over an EMPTY db, (b) one accumulating verifier over an empty db, (c) the producing snapshot, (d) a fresh immutable over the populated db. Alterations of each proof, each tried on a fresh empty-db verifier and on the accumulating verifier: one bit flipped in every element (first byte, last byte, 3 random bits), every element dropped, last dropped, adjacent elements swapped, every element duplicated, one extra element appended (copy of an element / random bytes), element replaced by the same-position element of another key's proof; plus the untouched proof against another trie's root (a one-value-different sibling trie and an unrelated trie). Verifier life cycles: one empty-db verifier reused for up to 8 keys with Flush() of the verifier after every accepted proof, and (flushed tries) a verifier opened from the populated db after Get/iteration; on both, all alterations of the next key's proof and the proof of the same key produced by another VERSION of the trie (one value changed elsewhere) must be rejected and the true proof accepted. Up to 16 absent near-miss keys: Prove with the trie's own GetProof output, with nil, and with a stored neighbour's proof must not yield a value. Non-trivial = distinct (root,key) whose proof has >=2 elements and whose alterations were all evaluated, or distinct (root, absent key) for which GetProof returned a non-nil proof.",
		MinNonTrivial: func(t string) int {
			if t == ev.Thorough {
				return 100000
			}
			return 4000
		},
		Required: []string{"proofs_verified_fresh_emptydb", "proofs_verified_accumulating", "proofs_verified_producer", "proof_elements",
			"alter_bitflip_rejected", "alter_drop_rejected", "alter_swap_rejected", "alter_duplicate_rejected", "alter_append_rejected",
			"alter_foreign_element_rejected", "wrong_root_rejected", "absent_keys_checked", "absent_with_nonnil_proof",
			"absent_with_neighbour_proof", "proofs_len1", "proofs_len_ge3", "object_api_tries", "bytes_api_tries",
			"proofs_on_flushed_verifier", "proofs_on_db_backed_verifier_after_get", "verifier_flushes", "other_version_proofs_rejected", "lifecycle_valid_proofs_accepted"},
		Assumptions: []string{"SHA3-256 is collision resistant (an altered element is never a second preimage)",
			"'rejected' = Prove returns an error or no value; 'yields a value' = non-nil value with nil error"},
		TimeoutSec: func(t string) int {
			if t == ev.Thorough {
				return 7200
			}
			return 600
		},
		Run: run,
	})
}

func hx(b []byte) string {
	if b == nil {
		return "nil"
	}
	return hex.EncodeToString(b)
}

func hexProof(p [][]byte) []string {
	o := make([]string, len(p))
	for i, e := range p {
		o[i] = hex.EncodeToString(e)
	}
	return o
}

func modelHex(m map[string][]byte) map[string]string {
	o := map[string]string{}
	for k, v := range m {
		o[hex.EncodeToString([]byte(k))] = hex.EncodeToString(v)
	}
	return o
}

type trieCase struct {
	c     *ev.Ctx
	f     tg.Factory
	model map[string][]byte
	root  []byte
}

func (t *trieCase) viol(key string, d map[string]interface{}) {
	d["api"] = t.f.Kind()
	d["root"] = hx(t.root)
	if len(t.model) <= 64 {
		d["content"] = modelHex(t.model)
	} else {
		d["content_size"] = len(t.model)
		d["content_note"] = "replay the case to regenerate the trie"
	}
	t.c.Violation(key, d)
}

// prove calls Prove and converts a panic into an outcome.
func prove(s tg.Snap, k []byte, p [][]byte) (v []byte, err error, panicked interface{}) {
	defer func() {
		if x := recover(); x != nil {
			panicked = x
		}
	}()
	v, err = s.Prove(k, p)
	return
}

func cloneProof(p [][]byte) [][]byte {
	o := make([][]byte, len(p))
	for i := range p {
		o[i] = append([]byte{}, p[i]...)
	}
	return o
}

func sameProof(a, b [][]byte) bool {
	if len(a) != len(b) {
		return false
	}
	for i := range a {
		if !bytes.Equal(a[i], b[i]) {
			return false
		}
	}
	return true
}

type alteration struct {
	class string
	desc  string
	proof [][]byte
}

func alterations(r *rand.Rand, p [][]byte, other [][]byte) []alteration {
	var out []alteration
	add := func(class, desc string, q [][]byte) {
		if !sameProof(p, q) { // byte-identical "alterations" are not alterations
			out = append(out, alteration{class, desc, q})
		}
	}
	for i := range p {
		n := len(p[i])
		if n == 0 {
			continue
		}
		pos := []int{0, (n - 1) * 8}
		for j := 0; j < 3; j++ {
			pos = append(pos, r.Intn(n*8))
		}
		for _, bit := range pos {
			q := cloneProof(p)
			q[i][bit/8] ^= 1 << uint(bit%8)
			add("bitflip", fmt.Sprintf("element %d bit %d", i, bit), q)
		}
		// drop element i
		q := cloneProof(p)
		q = append(q[:i], q[i+1:]...)
		add("drop", fmt.Sprintf("element %d dropped", i), q)
		// duplicate element i
		q = cloneProof(p)
		q = append(q[:i+1], append([][]byte{append([]byte{}, p[i]...)}, q[i+1:]...)...)
		if i == len(p)-1 {
			add("append", "last element appended again", q)
		} else {
			add("duplicate", fmt.Sprintf("element %d duplicated", i), q)
		}
		if i+1 < len(p) {
			q = cloneProof(p)
			q[i], q[i+1] = q[i+1], q[i]
			add("swap", fmt.Sprintf("elements %d,%d swapped", i, i+1), q)
		}
		if i < len(other) {
			q = cloneProof(p)
			q[i] = append([]byte{}, other[i]...)
			add("foreign_element", fmt.Sprintf("element %d replaced by element %d of another key's proof", i, i), q)
		}
	}
	// surplus at the end
	junk := make([]byte, 1+r.Intn(40))
	r.Read(junk)
	add("append", "random bytes appended as an element", append(cloneProof(p), junk))
	if len(p) > 0 {
		add("append", "first element appended", append(cloneProof(p), append([]byte{}, p[0]...)))
	}
	add("append", "empty element appended", append(cloneProof(p), []byte{}))
	return out
}

func run(c *ev.Ctx) {
	log.GlobalLogger().SetLevel(log.FatalLevel)
	c.Cases(func(ci int, r *rand.Rand) {
		f := tg.Factories[r.Intn(2)]
		c.Count(f.Kind()+"_api_tries", 1)
		var n int
		switch x := r.Intn(10); {
		case x < 3:
			n = 1 + r.Intn(4)
		case x < 7:
			n = 5 + r.Intn(40)
		default:
			n = 45 + r.Intn(256)
		}
		c.Note("trie api=%s keys=%d (content regenerated from the case PRNG)", f.Kind(), n)
		mut, model, d := tg.BuildRandom(r, f, n)
		snap := mut.Snapshot()
		t := &trieCase{c: c, f: f, model: model}
		flushed := r.Intn(4) != 0
		if flushed {
			snap.Flush()
		}
		t.root = snap.Hash()
		root := t.root
		keys := tg.SortedKeys(model)

		// another trie: one value differs (shares most nodes) and an unrelated one
		var otherRoots [][]byte
		var otherVersion tg.Snap // same trie with ONE value changed: its proofs share every subtree but one with ours
		var otherVersionKey string
		{
			m2 := f.MutableFrom(snap)
			k := keys[r.Intn(len(keys))]
			v2 := tg.Value(r)
			if bytes.Equal(v2, model[k]) {
				v2 = append(v2, 1)
			}
			m2.Set([]byte(k), v2)
			otherVersion = m2.Snapshot()
			otherVersionKey = k
			otherRoots = append(otherRoots, otherVersion.Hash())
			m3, _, _ := tg.BuildRandom(r, f, 1+r.Intn(20))
			otherRoots = append(otherRoots, m3.Snapshot().Hash())
		}

		acc := f.NewImmutable(db.NewMapDB(), root) // accumulating verifier
		// stored keys
		order := r.Perm(len(keys))
		if len(order) > 24 {
			order = order[:24]
		}
		var prevProof [][]byte
		var prevKey string
		for _, ki := range order {
			if c.Stopped() {
				return
			}
			k := []byte(keys[ki])
			want := model[keys[ki]]
			c.Eval(1)
			proof := snap.GetProof(k)
			if proof == nil {
				t.viol("getproof.nil-for-stored-key", map[string]interface{}{"key": hx(k)})
				return
			}
			c.Count("proof_elements", len(proof))
			switch {
			case len(proof) == 1:
				c.Count("proofs_len1", 1)
			case len(proof) >= 3:
				c.Count("proofs_len_ge3", 1)
			}
			orig := cloneProof(proof)
			type ver struct {
				name string
				s    tg.Snap
				cnt  string
			}
			vers := []ver{
				{"fresh-immutable-over-empty-db", f.NewImmutable(db.NewMapDB(), root), "proofs_verified_fresh_emptydb"},
				{"accumulating-verifier-over-empty-db", acc, "proofs_verified_accumulating"},
				{"producing-snapshot", snap, "proofs_verified_producer"},
			}
			if flushed {
				vers = append(vers, ver{"fresh-immutable-over-populated-db", f.NewImmutable(d, root), "proofs_verified_fresh_populated"})
			}
			for _, v := range vers {
				got, err, pn := prove(v.s, k, cloneProof(proof))
				if pn != nil {
					t.viol("prove.stored-key.panic."+v.name, map[string]interface{}{"key": hx(k), "proof": hexProof(orig), "panic": fmt.Sprint(pn)})
					return
				}
				if err != nil || !bytes.Equal(got, want) || got == nil {
					t.viol("prove.own-proof-not-accepted."+v.name, map[string]interface{}{"key": hx(k), "proof": hexProof(orig), "want": hx(want), "got": hx(got), "err": fmt.Sprint(err)})
					return
				}
				c.Count(v.cnt, 1)
			}
			if !sameProof(proof, orig) {
				t.viol("prove.modified-callers-proof", map[string]interface{}{"key": hx(k)})
				return
			}
			// alterations
			all := true
			for _, a := range alterations(r, proof, prevProof) {
				for vi := 0; vi < 2; vi++ {
					var v tg.Snap
					name := "fresh-immutable-over-empty-db"
					if vi == 0 {
						v = f.NewImmutable(db.NewMapDB(), root)
					} else {
						v, name = acc, "accumulating-verifier-over-empty-db"
					}
					c.Eval(1)
					got, err, pn := prove(v, k, cloneProof(a.proof))
					if pn != nil {
						t.viol("prove.altered-proof.panic."+a.class, map[string]interface{}{"key": hx(k), "proof": hexProof(orig), "altered": hexProof(a.proof), "alteration": a.desc, "verifier": name, "panic": fmt.Sprint(pn)})
						return
					}
					if err == nil && got != nil {
						t.viol("prove.altered-proof-accepted."+a.class, map[string]interface{}{"key": hx(k), "proof": hexProof(orig), "altered": hexProof(a.proof), "alteration": a.desc, "verifier": name, "yielded": hx(got), "stored_value": hx(want), "other_key": hx([]byte(prevKey))})
						all = false
						if c.Stopped() {
							return
						}
						continue
					}
					c.Count("alter_"+a.class+"_rejected", 1)
				}
			}
			// the accumulating verifier must still accept the real proof after all the rejected ones
			if got, err, pn := prove(acc, k, cloneProof(proof)); pn != nil || err != nil || !bytes.Equal(got, want) {
				t.viol("prove.own-proof-not-accepted.after-rejected-alterations", map[string]interface{}{"key": hx(k), "proof": hexProof(orig), "want": hx(want), "got": hx(got), "err": fmt.Sprint(err), "panic": fmt.Sprint(pn)})
				return
			}
			// the proof belongs to this root only
			for oi, or := range otherRoots {
				if bytes.Equal(or, root) {
					continue
				}
				c.Eval(1)
				got, err, pn := prove(f.NewImmutable(db.NewMapDB(), or), k, cloneProof(proof))
				if pn != nil {
					t.viol("prove.other-root.panic", map[string]interface{}{"key": hx(k), "proof": hexProof(orig), "other_root": hx(or), "panic": fmt.Sprint(pn)})
					return
				}
				if err == nil && got != nil {
					t.viol("prove.proof-of-another-root-accepted", map[string]interface{}{"key": hx(k), "proof": hexProof(orig), "other_root": hx(or), "which": oi, "yielded": hx(got)})
					return
				}
				c.Count("wrong_root_rejected", 1)
			}
			if len(proof) >= 2 && all {
				c.NonTrivial("S" + hx(root) + "/" + hx(k))
			}
			if c.WantSample() && len(proof) >= 2 {
				c.Sample(map[string]interface{}{"api": f.Kind(), "trie_keys": len(model), "root": hx(root), "key": hx(k), "value": hx(want), "proof": hexProof(proof)})
			}
			prevProof, prevKey = orig, keys[ki]
		}

		// verifier life cycles: ONE verifier reused across proofs with Flush() in between, and a
		// verifier opened from the populated database whose upper nodes were loaded by ordinary reads
		if !lifeCycles(c, r, t, f, snap, d, flushed, keys, order, otherVersion, otherVersionKey) {
			return
		}

		// absent keys
		for _, k := range tg.AbsentKeys(r, model, 16) {
			if c.Stopped() {
				return
			}
			c.Eval(1)
			c.Count("absent_keys_checked", 1)
			own := snap.GetProof(k)
			if own != nil {
				c.Count("absent_with_nonnil_proof", 1)
				c.NonTrivial("A" + hx(root) + "/" + hx(k))
			}
			type att struct {
				name  string
				proof [][]byte
			}
			atts := []att{{"own-getproof-output", own}, {"nil-proof", nil}}
			if prevProof != nil {
				atts = append(atts, att{"proof-of-a-stored-key", prevProof})
				c.Count("absent_with_neighbour_proof", 1)
			}
			// proof of the closest stored key (longest common prefix)
			best, bl := "", -1
			for _, sk := range keys {
				l := 0
				for l < len(sk) && l < len(k) && sk[l] == k[l] {
					l++
				}
				if l > bl {
					best, bl = sk, l
				}
			}
			if bl >= 0 {
				atts = append(atts, att{"proof-of-the-closest-stored-key", snap.GetProof([]byte(best))})
			}
			for _, a := range atts {
				for vi := 0; vi < 3; vi++ {
					var v tg.Snap
					var name string
					switch vi {
					case 0:
						v, name = f.NewImmutable(db.NewMapDB(), root), "fresh-immutable-over-empty-db"
					case 1:
						v, name = acc, "accumulating-verifier-over-empty-db"
					default:
						v, name = snap, "producing-snapshot"
					}
					got, err, pn := prove(v, k, cloneProof(a.proof))
					if pn != nil {
						t.viol("prove.absent-key.panic."+a.name, map[string]interface{}{"key": hx(k), "proof": hexProof(a.proof), "verifier": name, "panic": fmt.Sprint(pn), "closest_stored_key": hx([]byte(best))})
						return
					}
					if err == nil && got != nil {
						t.viol("prove.absent-key-yields-value."+a.name, map[string]interface{}{"key": hx(k), "proof": hexProof(a.proof), "verifier": name, "yielded": hx(got)})
						return
					}
				}
			}
		}
	})
}

// lifeCycles: state carried over on one verifying trie object.
func lifeCycles(c *ev.Ctx, r *rand.Rand, t *trieCase, f tg.Factory, snap tg.Snap, d db.Database, flushed bool,
	keys []string, order []int, otherVersion tg.Snap, otherVersionKey string) bool {
	root := t.root
	n := len(order)
	if n > 8 {
		n = 8
	}
	type life struct {
		name, cnt string
		v         tg.Snap
		flush     bool
	}
	lives := []life{{"flushed-verifier", "proofs_on_flushed_verifier", f.NewImmutable(db.NewMapDB(), root), true}}
	if flushed {
		v := f.NewImmutable(d, root)
		// ordinary reads load the upper nodes from the database
		for i := 0; i < 6 && i < len(keys); i++ {
			v.Get([]byte(keys[r.Intn(len(keys))]))
		}
		if r.Intn(2) == 0 {
			v.Iterate(nil, false)
		}
		lives = append(lives, life{"db-backed-verifier-after-get", "proofs_on_db_backed_verifier_after_get", v, r.Intn(2) == 0})
	}
	allOK := true
	for _, lf := range lives {
		var prev [][]byte
		lifeOK := true
		for i := 0; i < n && lifeOK; i++ {
			if c.Stopped() {
				return false
			}
			k := []byte(keys[order[i]])
			want := t.model[keys[order[i]]]
			proof := snap.GetProof(k)
			if proof == nil {
				t.viol("getproof.nil-for-stored-key", map[string]interface{}{"key": hx(k)})
				return false
			}
			// first key on the flushed verifier: nothing is installed yet, accept + flush first
			if !(lf.flush && i == 0 && lf.name == "flushed-verifier") {
				alts := alterations(r, proof, prev)
				if otherVersion != nil && keys[order[i]] != otherVersionKey {
					if op := otherVersion.GetProof(k); op != nil && !sameProof(op, proof) {
						alts = append(alts, alteration{"other_version_proof", "proof of the same key produced by the trie with one other value changed", op})
					}
				}
				for _, a := range alts {
					c.Eval(1)
					got, err, pn := prove(lf.v, k, cloneProof(a.proof))
					if pn != nil {
						t.viol("prove.altered-proof.panic."+a.class+"."+lf.name, map[string]interface{}{"key": hx(k), "altered": hexProof(a.proof), "alteration": a.desc, "panic": fmt.Sprint(pn)})
						return false
					}
					if err == nil && got != nil {
						t.viol("prove.altered-proof-accepted."+a.class+"."+lf.name, map[string]interface{}{"key": hx(k), "proof": hexProof(proof), "altered": hexProof(a.proof),
							"alteration": a.desc, "verifier": lf.name, "keys_proved_and_flushed_before": i, "yielded": hx(got), "stored_value": hx(want)})
						allOK, lifeOK = false, false
						continue
					}
					c.Count(lf.cnt, 1)
					if a.class == "other_version_proof" {
						c.Count("other_version_proofs_rejected", 1)
					}
				}
			}
			got, err, pn := prove(lf.v, k, cloneProof(proof))
			if pn != nil || err != nil || got == nil || !bytes.Equal(got, want) {
				t.viol("prove.own-proof-not-accepted."+lf.name, map[string]interface{}{"key": hx(k), "proof": hexProof(proof), "want": hx(want), "got": hx(got), "err": fmt.Sprint(err), "panic": fmt.Sprint(pn)})
				return false
			}
			c.Count("lifecycle_valid_proofs_accepted", 1)
			if lf.flush {
				ok, err := tg.FlushVerifier(lf.v)
				if err != nil {
					t.viol("verifier.flush-error."+lf.name, map[string]interface{}{"err": err.Error()})
					return false
				}
				if ok {
					c.Count("verifier_flushes", 1)
				}
			}
			prev = proof
		}
	}
	return allOK
}
