// Package c30: P2P packet framing round-trips under any chunking and detects
// single-byte corruption of header, payload and hash.
package c30

import (
	"bytes"
	"encoding/hex"
	"fmt"
	"math/rand"

	"github.com/icon-project/goloop/network"

	"verif/lib/ev"
	"verif/lib/netgrp"
)

const payloadMax = network.DefaultPacketPayloadMax

func init() {
	ev.Register(&ev.Prop{
		ID:    "C30",
		Level: "exploration",
		Cases: func(t string) int {
			if t == ev.Thorough {
				return 150000
			}
			return 5000
		},
		Batches: func(t string) int { return 16 },
		Rule:    "each case = one sequence of 1-20 packets (random protocol/sub-protocol/src/dest/ttl/ext hint+bytes incl. extensions longer than the 10-bit length field, payload sizes biased to 0,1,bufio-buffer edges 4056/4066/4095/4096/4097,8192±1,65535/65536 and the maximum 1 MiB) written with the real PacketWriter and read back by the real PacketReader through a reader that hands out PRNG-sized chunks (1 byte / 1-16 / 1-5000 / whole / mixed) with occasional (0,nil) reads; then ~40-70 single-byte corruptions (every header byte, all 8 hash bytes, sampled payload bytes of one packet) each re-read from a fresh reader. Non-trivial = distinct (stream, chunk mode) with >=2 packets read through sub-packet chunks, or a distinct (stream, offset, value) corruption inside header/payload/hash.",
		MinNonTrivial: func(t string) int {
			if t == ev.Thorough {
				return 4000000
			}
			return 150000
		},
		Required: []string{"packets_roundtrip", "corrupt_header_rejected", "corrupt_payload_rejected", "corrupt_hash_rejected",
			"zero_reads", "payload_max", "payload_at_buffer_edge", "ext_nonempty", "ext_longer_than_length_field", "eof_after_last", "corrupt_ext_nopanic"},
		Assumptions: []string{
			"FNV-1a 64 is the packet hash: any single-byte change inside equally long input changes it (bijective steps); a corrupted length field is accepted only on a 64-bit collision",
			"the 2 extension-info bytes and the extension bytes are outside the hash and outside the statement's corruption clause: mutated only to look for panics",
			"region offsets (30-byte header, 8+2-byte footer) come from the package's own constants exported by the verif hook",
		},
		TimeoutSec: func(t string) int {
			if t == ev.Thorough {
				return 6000
			}
			return 600
		},
		Run: run,
	})
}

type spec struct {
	pi, spi   uint16
	src       []byte
	dest, ttl byte
	payload   []byte
	hint      byte
	ext       []byte // extension bytes expected on the wire (extRaw cut to the advertised 10-bit length)
	extRaw    []byte // what the sender put into the packet
}

func (s *spec) wireLen() int {
	return network.VerifPacketHeaderSize + len(s.payload) + network.VerifPacketFooterSize + len(s.ext)
}

func (s *spec) brief() map[string]interface{} {
	p := s.payload
	if len(p) > 24 {
		p = p[:24]
	}
	return map[string]interface{}{
		"pi": s.pi, "spi": s.spi, "src": hex.EncodeToString(s.src), "dest": s.dest, "ttl": s.ttl,
		"payload_len": len(s.payload), "payload_head": hex.EncodeToString(p), "hint": s.hint, "ext": hex.EncodeToString(s.ext), "ext_raw_len": len(s.extRaw),
	}
}

var edgeSizes = []int{0, 1, 2, 29, 30, 31, 4055, 4056, 4057, 4065, 4066, 4067, 4095, 4096, 4097, 8191, 8192, 8193, 65535, 65536}

func genSpec(r *rand.Rand, big bool) *spec {
	s := &spec{}
	s.pi = uint16(r.Intn(0x10000))
	s.spi = uint16(r.Intn(0x10000))
	s.src = make([]byte, 20)
	switch r.Intn(8) {
	case 0: // zeros
	case 1:
		for i := range s.src {
			s.src[i] = 0xff
		}
	default:
		r.Read(s.src)
	}
	s.dest = []byte{0, 1, 2, 0xff, byte(r.Intn(256))}[r.Intn(5)]
	s.ttl = []byte{0, 1, 2, 0xff, byte(r.Intn(256))}[r.Intn(5)]
	var n int
	switch k := r.Intn(20); {
	case k < 7:
		n = r.Intn(64)
	case k < 12:
		n = r.Intn(600)
	case k < 17:
		n = edgeSizes[r.Intn(len(edgeSizes))]
	case k < 19:
		n = r.Intn(20000)
	default:
		if big {
			n = []int{payloadMax, payloadMax - 1, payloadMax / 2, 300000 + r.Intn(700000)}[r.Intn(4)]
		} else {
			n = r.Intn(3000)
		}
	}
	s.payload = make([]byte, n)
	switch r.Intn(6) {
	case 0: // zeros: weakest input for a hash
	case 1:
		for i := range s.payload {
			s.payload[i] = 0xff
		}
	default:
		r.Read(s.payload)
	}
	switch r.Intn(4) {
	case 0:
		s.hint = byte(r.Intn(64))
		// 1024 and more: the 10-bit length field wraps; the writer must put exactly the advertised
		// number of extension bytes on the wire or every later packet of the stream is misframed (seed C30d)
		m := []int{1, 4, 8, 400, 1022, 1023, r.Intn(1024), 1024, 1025, 1028, 2047, 2048, 1024 + r.Intn(3000)}[r.Intn(13)]
		s.extRaw = make([]byte, m)
		r.Read(s.extRaw)
		s.ext = s.extRaw[:m&1023]
	case 1:
		s.hint = byte(r.Intn(64)) // hint without bytes
	}
	return s
}

func same(s *spec, f network.VerifPacketInfo) string {
	switch {
	case f.Protocol != s.pi:
		return "protocol"
	case f.SubProtocol != s.spi:
		return "subprotocol"
	case !bytes.Equal(f.Src, s.src):
		return "src"
	case f.Dest != s.dest:
		return "dest"
	case f.TTL != s.ttl:
		return "ttl"
	case !bytes.Equal(f.Payload, s.payload):
		return "payload"
	case f.ExtInfo != uint16(s.hint)<<10|uint16(len(s.ext)):
		return "extinfo"
	case !bytes.Equal(f.Ext, s.ext):
		return "ext"
	}
	return ""
}

// safeRead runs ReadPacket and converts a panic into an error string.
func safeRead(pr *network.PacketReader) (pkt *network.Packet, err error, pan string) {
	defer func() {
		if x := recover(); x != nil {
			pan = fmt.Sprint(x)
		}
	}()
	pkt, err = pr.ReadPacket()
	return
}

func run(c *ev.Ctx) {
	netgrp.QuietLogger()
	c.Cases(func(ci int, r *rand.Rand) {
		// one in 29 cases may carry a maximum-size payload (29 is coprime to the batch count)
		big := ci%29 == 0
		np := 1 + r.Intn(20)
		if r.Intn(4) == 0 {
			np = 1 + r.Intn(3)
		}
		specs := make([]*spec, np)
		total := 0
		bigLeft := 1
		for i := range specs {
			specs[i] = genSpec(r, big && bigLeft > 0)
			if big && i == 0 && r.Intn(2) == 0 {
				specs[i].payload = make([]byte, payloadMax-r.Intn(2)*r.Intn(3))
				r.Read(specs[i].payload[:4096])
			}
			if len(specs[i].payload) > 100000 {
				bigLeft--
			}
			total += specs[i].wireLen()
		}
		c.Note("seq n=%d total=%d first=%v", np, total, specs[0].brief())

		// ---- write with the real writer
		var stream bytes.Buffer
		pw := network.NewPacketWriter(&stream)
		offs := make([]int, np+1)
		for i, s := range specs {
			offs[i] = stream.Len()
			pkt := network.VerifNewPacket(s.pi, s.spi, s.src, s.dest, s.ttl, s.payload, s.hint, s.extRaw)
			if err := pw.WritePacket(pkt); err != nil {
				c.Violation("write.error", map[string]interface{}{"packet": s.brief(), "index": i, "err": err.Error()})
				return
			}
			if got := stream.Len() - offs[i]; got != s.wireLen() {
				c.Violation("write.length", map[string]interface{}{"packet": s.brief(), "index": i, "wrote": got, "want": s.wireLen()})
				return
			}
			switch n := len(s.payload); {
			case n == payloadMax:
				c.Count("payload_max", 1)
			case n >= 4055 && n <= 4097:
				c.Count("payload_at_buffer_edge", 1)
			}
			if len(s.extRaw) > 1023 {
				c.Count("ext_longer_than_length_field", 1)
			}
			if len(s.ext) > 0 {
				c.Count("ext_nonempty", 1)
			}
		}
		offs[np] = stream.Len()
		data := stream.Bytes()

		// ---- read back under 2 chunkings
		for rep := 0; rep < 2 && !c.Stopped(); rep++ {
			mode := r.Intn(5)
			if total > 150000 && mode < 2 {
				mode = 2 + r.Intn(2) // 1-byte chunks over megabytes cost too much; covered on small streams
			}
			cr := &netgrp.ChunkReader{Data: data, R: r, Mode: mode, Zero: r.Intn(2) == 0}
			pr := network.NewPacketReader(cr)
			c.Eval(1)
			bad := false
			for i, s := range specs {
				pkt, err, pan := safeRead(pr)
				if pan != "" {
					c.Violation("read.panic", map[string]interface{}{"packet": s.brief(), "index": i, "mode": mode, "panic": pan, "stream_head": headHex(data)})
					bad = true
					break
				}
				if err != nil {
					c.Violation("roundtrip.read-error.mode"+fmt.Sprint(mode), map[string]interface{}{"packet": s.brief(), "index": i, "n": np, "zero_reads": cr.Zero, "err": err.Error()})
					bad = true
					break
				}
				if d := same(s, network.VerifPacketFields(pkt)); d != "" {
					c.Violation("roundtrip.field."+d, map[string]interface{}{"packet": s.brief(), "index": i, "n": np, "mode": mode, "zero_reads": cr.Zero, "got": fmt.Sprintf("%+v", brief(network.VerifPacketFields(pkt)))})
					bad = true
					break
				}
				c.Count("packets_roundtrip", 1)
			}
			if bad {
				continue
			}
			// no phantom packet after the last one
			if pkt, err, pan := safeRead(pr); pan != "" || err == nil {
				c.Violation("roundtrip.phantom-packet", map[string]interface{}{"n": np, "mode": mode, "panic": pan, "got": fmt.Sprint(pkt)})
			} else {
				c.Count("eof_after_last", 1)
			}
			c.Count("zero_reads", cr.Zeros)
			c.Count(fmt.Sprintf("chunk_mode_%d", mode), 1)
			if np >= 2 && mode != 3 {
				c.NonTrivial(fmt.Sprintf("S%x/%d", ev.Hash64(string(data)), mode))
			}
			if rep == 0 && c.WantSample() {
				c.Sample(map[string]interface{}{"kind": "roundtrip", "packets": np, "bytes": total, "chunk_mode": mode, "reads": cr.Reads, "first": specs[0].brief()})
			}
		}

		// ---- corruption: one victim packet, fresh reader per corruption
		j := r.Intn(np)
		if total > 40000 {
			// keep cost bounded: streams with big packets only get a few corruptions
			corrupt(c, r, specs, data, offs, j, 6)
		} else {
			corrupt(c, r, specs, data, offs, j, 0)
		}
	})
}

func headHex(b []byte) string {
	if len(b) > 96 {
		b = b[:96]
	}
	return hex.EncodeToString(b)
}

func brief(f network.VerifPacketInfo) map[string]interface{} {
	p := f.Payload
	if len(p) > 24 {
		p = p[:24]
	}
	return map[string]interface{}{"pi": f.Protocol, "spi": f.SubProtocol, "src": hex.EncodeToString(f.Src), "dest": f.Dest, "ttl": f.TTL,
		"payload_len": len(f.Payload), "payload_head": hex.EncodeToString(p), "extinfo": f.ExtInfo, "ext": hex.EncodeToString(f.Ext)}
}

// corrupt alters single bytes of packet j and expects ReadPacket to fail on it.
func corrupt(c *ev.Ctx, r *rand.Rand, specs []*spec, data []byte, offs []int, j int, limit int) {
	s := specs[j]
	hs := network.VerifPacketHeaderSize
	base := offs[j]
	type pos struct {
		off   int
		class string
	}
	var ps []pos
	for i := 0; i < hs; i++ {
		ps = append(ps, pos{base + i, "header"})
	}
	for i := 0; i < 8; i++ {
		ps = append(ps, pos{base + hs + len(s.payload) + i, "hash"})
	}
	if n := len(s.payload); n > 0 {
		k := 24
		if n < k {
			k = n
		}
		ps = append(ps, pos{base + hs, "payload"}, pos{base + hs + n - 1, "payload"})
		for i := 0; i < k; i++ {
			ps = append(ps, pos{base + hs + r.Intn(n), "payload"})
		}
	}
	// outside the hash: extension info and extension bytes (panic hunting only)
	ps = append(ps, pos{base + hs + len(s.payload) + 8, "extinfo"}, pos{base + hs + len(s.payload) + 9, "extinfo"})
	if len(s.ext) > 0 {
		ps = append(ps, pos{base + hs + len(s.payload) + 10 + r.Intn(len(s.ext)), "ext"})
	}
	if limit > 0 {
		r.Shuffle(len(ps), func(a, b int) { ps[a], ps[b] = ps[b], ps[a] })
		ps = ps[:limit]
	}
	// start the reader at a packet boundary at or before the victim
	start := j
	if j > 0 {
		start = j - r.Intn(2)
	}
	buf := make([]byte, len(data)-offs[start])
	copy(buf, data[offs[start]:])
	lastRel := -1
	var lastOld byte
	for _, p := range ps {
		if c.Stopped() {
			return
		}
		if lastRel >= 0 {
			buf[lastRel] = lastOld // undo the previous corruption
		}
		rel := p.off - offs[start]
		old := buf[rel]
		lastRel, lastOld = rel, old
		var nv byte
		switch r.Intn(4) {
		case 0:
			nv = old ^ (1 << uint(r.Intn(8))) // single bit
		case 1:
			nv = old ^ 0xff
		default:
			nv = old ^ byte(1+r.Intn(255))
		}
		buf[rel] = nv
		c.Eval(1)
		c.Note("corrupt j=%d start=%d class=%s off=%d old=%02x new=%02x", j, start, p.class, p.off-base, old, nv)
		cr := &netgrp.ChunkReader{Data: buf, R: r, Mode: 2 + r.Intn(3), Zero: false}
		pr := network.NewPacketReader(cr)
		wit := func(extra map[string]interface{}) map[string]interface{} {
			m := map[string]interface{}{"victim": s.brief(), "victim_index": j, "read_from_index": start, "class": p.class,
				"offset_in_packet": p.off - base, "old": old, "new": nv, "packets_in_stream": len(specs)}
			if len(buf) <= 4096 {
				m["stream_hex"] = hex.EncodeToString(buf)
			}
			for k, v := range extra {
				m[k] = v
			}
			return m
		}
		ok := true
		for i := start; i < j; i++ {
			pkt, err, pan := safeRead(pr)
			if pan != "" || err != nil || same(specs[i], network.VerifPacketFields(pkt)) != "" {
				c.Violation("corrupt.earlier-packet-damaged", wit(map[string]interface{}{"index": i, "err": fmt.Sprint(err), "panic": pan}))
				ok = false
				break
			}
		}
		if !ok {
			continue
		}
		pkt, err, pan := safeRead(pr)
		if pan != "" {
			c.Violation("corrupt.panic."+p.class, wit(map[string]interface{}{"panic": pan}))
			continue
		}
		switch p.class {
		case "header", "payload", "hash":
			if err == nil {
				key := "corrupt.accepted." + p.class
				if p.class == "header" {
					key += fmt.Sprintf(".byte%d", p.off-base)
				}
				c.Violation(key, wit(map[string]interface{}{"got": brief(network.VerifPacketFields(pkt))}))
				continue
			}
			c.Count("corrupt_"+p.class+"_rejected", 1)
			c.NonTrivial(fmt.Sprintf("C%x/%d/%d/%d", ev.Hash64(string(data[offs[j]:offs[j+1]])), p.off-base, nv, start-j))
			if p.class == "header" && c.WantSample() {
				c.Sample(map[string]interface{}{"kind": "corruption", "class": p.class, "offset_in_packet": p.off - base, "old": old, "new": nv, "err": err.Error(), "victim": s.brief()})
			}
		default:
			// not covered by the hash: accepted or rejected, but must not panic
			// and, when accepted, header and payload are still the written ones
			if err == nil {
				f := network.VerifPacketFields(pkt)
				if f.Protocol != s.pi || f.SubProtocol != s.spi || !bytes.Equal(f.Src, s.src) || f.Dest != s.dest || f.TTL != s.ttl || !bytes.Equal(f.Payload, s.payload) {
					c.Violation("corrupt.ext-changed-body", wit(map[string]interface{}{"got": brief(f)}))
				}
			}
			c.Count("corrupt_ext_nopanic", 1)
		}
	}
}
