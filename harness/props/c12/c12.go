// Package c12: a transaction keeps its identity across all representations.
//
// v3 transactions are generated as value trees (no JSON parser on the harness
// side), rendered to JSON text in several styles, and pushed through the real
// goloop code: JSON -> transaction -> Bytes() -> NewTransaction -> ... and
// JSON export -> parse again. Every stage must show the same id, sender,
// recipient, value, step limit, timestamp, nid, nonce, data and signature
// validity; the id must be the one of the harness's own ICON v3 serializer;
// a one-step change of a signed field must change the id exactly when it
// changes the reference phrase.
package c12

import (
	"bytes"
	"encoding/base64"
	"encoding/hex"
	"encoding/json"
	"fmt"
	"math/big"
	"math/rand"
	"strconv"
	"strings"
	"sync"

	"github.com/icon-project/goloop/common"
	"github.com/icon-project/goloop/common/codec"
	"github.com/icon-project/goloop/common/log"
	"github.com/icon-project/goloop/module"
	"github.com/icon-project/goloop/service/transaction"

	"verif/lib/ev"
	"verif/lib/sig"
)

const txPerCase = 20

// the last concCases(tier) case indices are the concurrency phase
func seqCases(t string) int {
	if t == ev.Thorough {
		return 32000
	}
	return 480
}

func concCases(t string) int {
	if t == ev.Thorough {
		return 128
	}
	return 16
}

const (
	concGoroutines = 16
	concTxPerG     = 6
)

// knownLeadingEmpty is the ONE key of one specific defect: goloop's list
// serializer writes the "." separator only when its buffer is not empty, so
// list elements that serialize to the empty string vanish while they lead the
// list (["","a"] hashes like ["a"]). The key is used only when goloop's id is
// exactly the id of the phrase with that behaviour re-created (quirkTxID), or
// when two transactions collide exactly because of it.
const knownLeadingEmpty = "id.list-leading-empty-string-dropped"

func init() {
	ev.Register(&ev.Prop{
		ID:    "C12",
		Level: "exploration",
		Cases: func(t string) int { return seqCases(t) + concCases(t) },
		Batches: func(t string) int {
			if t == ev.Thorough {
				return 32
			}
			return 16
		},
		Rule: fmt.Sprintf("each case = %d generated v3 transactions (all optional-field subsets; dataType absent/message/call/deploy/deposit/free-form; nested data with the escaped characters \\ { } [ ] . , control and non-ASCII characters, nulls, empty containers; class 0 canonical literals, class 1 accepted non-canonical literals (leading zero, upper-case hex, decimal, upper-case address, unknown extra member: the raw-fallback path), class 2 = forms the format description leaves open (JSON numbers, odd keys): consistency only). Each transaction is rendered in 3 JSON styles (key order, whitespace, \\u escapes) and each rendering goes JSON->tx->Bytes->NewTransaction x3, raw JSON -> NewTransaction, JSON export -> parse; canonical ones are also born from harness-built RLP bytes. Oracle: own ICON v3 serializer + sha3 for the id; the generator's own knowledge of every field; decred signature by the harness key (1 in 8 signed by a wrong key: must stay invalid). Then 3 one-step changes of a signed field per transaction: id differs iff the reference phrase differs. Concurrency phase (last cases): 16 goroutines at once, each parsing its own distinct signed canonical transactions from JSON in a loop (id against the reference every time; Verify and Bytes->NewTransaction->id every 8th time) - the identity oracle of the sequential phase under simultaneous use. Non-trivial = distinct transaction (by reference phrase / JSON text) that has data or a non-canonical form, and distinct changed pair.", txPerCase),
		MinNonTrivial: func(t string) int {
			if t == ev.Thorough {
				return 600000
			}
			return 12000
		},
		TimeoutSec: func(t string) int {
			if t == ev.Thorough {
				return 5400
			}
			return 900
		},
		Required: []string{"stage_json", "stage_binary_round", "stage_raw_json", "stage_json_export", "stage_binary_born", "verify_valid", "verify_invalid", "raw_fallback_reached", "stored_as_rlp", "change_id_differs", "change_same_phrase_same_id", "class_canonical", "class_noncanonical", "class_ambiguous", "style_variants_agree", "dict_keys_with_special_characters", "changed_dict-flatten-two-members-into-one-key", "concurrent_parses", "concurrent_roundtrips", "concurrent_goroutine_runs"},
		Assumptions: []string{
			"the ICON v3 hash rule is: sha3-256 of 'icx_sendTransaction.' + sorted key.value walk, strings escaped at \\ { } [ ] . , null = \\0, {..} for objects, [..] for arrays, members signature and txHash left out (reference in lib/sig/icon.go, written from the format rules; /repo/doc has no text for the rule, the Java SDK serializer in /repo/sdk agrees with it)",
			"dictionary keys are written escaped like string values (goloop does; the Java SDK does not): without it {\"a\":\"b\",\"c\":\"d\"} and {\"a.b.c\":\"d\"} share one phrase; ASCII keys incl. empty ones and ones with the escaped characters are reference-checked",
			"JSON numbers and non-ASCII keys are outside the reference (consistency checks only)",
			"decred secp256k1 for signing; golang.org/x/crypto/sha3",
			"goloop's codec is trusted to build the harness-made RLP form (it is under C23)",
		},
		Run: run,
	})
}

// mirror of the stored binary layout (see props/c13).
type v3bin struct {
	Version   common.HexUint16
	From      common.Address
	To        common.Address
	Value     *common.HexInt
	StepLimit common.HexInt
	TimeStamp common.HexInt64
	NID       *common.HexInt64
	Nonce     *common.HexInt
	Signature []byte
	DataType  *string
	Data      []byte
}

type txCase struct {
	tx       *sig.Val // without signature
	e        *expect
	class    int
	sigRSV   []byte
	sigValid bool
	refID    []byte // nil for class 2 until the first parse
	gotID    []byte // the id goloop gave the unchanged transaction (first JSON parse)
	phrase   string
}

func (t *txCase) withSig() *sig.Val {
	v := t.tx.Clone()
	v.Set("signature", sig.Str(base64.StdEncoding.EncodeToString(t.sigRSV)))
	// signature somewhere in the middle
	if n := len(v.Keys); n > 2 {
		i := int(t.sigRSV[0]) % n
		v.Keys[i], v.Keys[n-1] = v.Keys[n-1], v.Keys[i]
		v.Vals[i], v.Vals[n-1] = v.Vals[n-1], v.Vals[i]
	}
	return v
}

func run(c *ev.Ctx) {
	log.GlobalLogger().SetLevel(log.FatalLevel)
	c.Cases(func(ci int, r *rand.Rand) {
		if ci >= seqCases(c.Tier) {
			runConcurrent(c, r)
			return
		}
		key := sig.NewKey(r)
		wrong := sig.NewKey(r)
		for n := 0; n < txPerCase && !c.Stopped(); n++ {
			class := 0
			switch r.Intn(10) {
			case 0, 1, 2:
				class = 1
			case 3, 4:
				class = 2
			}
			tx, e := genTx(r, key, class)
			t := &txCase{tx: tx, e: e, class: class}
			t.sigValid = r.Intn(8) != 0
			if class != 2 {
				if tx.Ambiguous() {
					panic("generator: ambiguous value in class " + fmt.Sprint(class))
				}
				t.phrase = sig.RefTxPhrase(tx)
				t.refID = sig.Sha3([]byte(t.phrase))
			} else if !tx.Ambiguous() {
				// nothing ambiguous was drawn: it is an ordinary class-0 transaction
				t.class = 0
				t.phrase = sig.RefTxPhrase(tx)
				t.refID = sig.Sha3([]byte(t.phrase))
			}
			c.Note("tx %s", sig.Plain(tx))
			checkTx(c, r, t, key, wrong)
		}
	})
}

func checkTx(c *ev.Ctx, r *rand.Rand, t *txCase, key, wrong *sig.Key) {
	c.Count([]string{"class_canonical", "class_noncanonical", "class_ambiguous"}[t.class], 1)
	if t.e.canonical {
		c.Count("all_literals_canonical", 1)
	}
	if n := countSpecialKeys(t.tx.Get("data")); n > 0 && t.class != 2 {
		c.Count("dict_keys_with_special_characters", n)
		c.Count("transactions_with_special_keys", 1)
	}
	for _, f := range t.e.forms {
		c.Count("form_"+f, 1)
	}
	if t.refID == nil {
		// class 2: the id is whatever the first parse says; it must then never change.
		probe := t.tx.Clone()
		probe.Set("signature", sig.Str(base64.StdEncoding.EncodeToString(make([]byte, 65))))
		p, err := transaction.NewTransactionFromJSON([]byte(sig.Plain(probe)))
		if err != nil {
			// the format leaves these open; refusing them is allowed
			c.Count("ambiguous_refused", 1)
			return
		}
		t.refID = append([]byte(nil), p.ID()...)
	}
	signer := key
	if !t.sigValid {
		signer = wrong
	}
	t.sigRSV = signer.SignRSV(t.refID)
	full := t.withSig()

	nontrivial := t.e.data != nil || !t.e.canonical
	if nontrivial {
		if t.phrase != "" {
			c.NonTrivial("T" + t.phrase)
		} else {
			c.NonTrivial("J" + sig.Plain(t.tx))
		}
	}
	if pick := r.Intn(4) == 0; pick && t.e.data != nil && c.WantSample() {
		c.Sample(map[string]interface{}{"json": sig.Plain(full), "reference_phrase": t.phrase, "id": hex.EncodeToString(t.refID), "class": t.class, "forms": t.e.forms})
	}

	styles := []*sig.Style{
		{R: r},
		{R: r, Shuffle: true, Space: true},
		{R: r, Shuffle: true, Space: r.Intn(2) == 0, UEscape: []int{30, 300, 1000}[r.Intn(3)], ShortEsc: true},
	}
	agree := true
	for si, st := range styles {
		text := st.Render(full)
		if !chain(c, t, fmt.Sprintf("style%d", si), []byte(text)) {
			agree = false
		}
	}
	if agree {
		c.Count("style_variants_agree", 1)
	}
	if t.e.canonical {
		born(c, r, t)
	}
	for k := 0; k < 3; k++ {
		change(c, r, t, wrong)
	}
}

// chain drives one JSON text through all representations.
func chain(c *ev.Ctx, t *txCase, style string, text []byte) bool {
	c.Eval(1)
	wit := func(stage, what string) map[string]interface{} {
		return map[string]interface{}{"stage": stage, "style": style, "what": what, "json_text": string(text), "tx": sig.Plain(t.withSig()),
			"reference_phrase": t.phrase, "reference_id": hex.EncodeToString(t.refID), "class": t.class, "forms": t.e.forms}
	}
	ok := true
	tx0, err := transaction.NewTransactionFromJSON(text)
	if err != nil {
		c.Violation("parse.json-rejected."+classKey(t), wit("json", err.Error()))
		return false
	}
	if t.gotID == nil {
		t.gotID = append([]byte(nil), tx0.ID()...)
	}
	ok = inspect(c, t, tx0, "json", wit) && ok
	c.Count("stage_json", 1)

	// stored form, three rounds
	cur := tx0
	for round := 1; round <= 3; round++ {
		b := cur.Bytes()
		if len(b) == 0 {
			c.Violation("bytes.empty", wit(fmt.Sprintf("binary%d", round), "Bytes() is empty"))
			return false
		}
		if round == 1 {
			if b[0] == '{' {
				c.Count("stored_as_json", 1)
				c.Count("raw_fallback_reached", 1)
			} else {
				c.Count("stored_as_rlp", 1)
			}
		}
		nx, err := transaction.NewTransaction(append([]byte(nil), b...))
		if err != nil {
			w := wit(fmt.Sprintf("binary%d", round), err.Error())
			w["bytes"] = hex.EncodeToString(b)
			c.Violation("parse.stored-form-rejected."+classKey(t), w)
			return false
		}
		ok = inspect(c, t, nx, fmt.Sprintf("binary%d", round), wit) && ok
		c.Count("stage_binary_round", 1)
		cur = nx
	}

	// the JSON text itself as stored form (legacy raw transactions)
	trimmed := bytes.TrimLeft(text, " \t\r\n")
	if rt, err := transaction.NewTransaction(trimmed); err != nil {
		c.Violation("parse.raw-json-rejected."+classKey(t), wit("rawjson", err.Error()))
		ok = false
	} else {
		ok = inspect(c, t, rt, "rawjson", wit) && ok
		c.Count("stage_raw_json", 1)
		// and its own stored form
		if rt2, err := transaction.NewTransaction(rt.Bytes()); err != nil {
			c.Violation("parse.raw-json-stored-rejected."+classKey(t), wit("rawjson-binary", err.Error()))
			ok = false
		} else {
			ok = inspect(c, t, rt2, "rawjson-binary", wit) && ok
		}
	}

	// JSON export of the last binary stage, parsed again
	jb, err := json.Marshal(cur)
	if err != nil {
		c.Violation("export.json-fails", wit("export", err.Error()))
		return false
	}
	et, err := transaction.NewTransactionFromJSON(jb)
	if err != nil {
		w := wit("export", err.Error())
		w["exported"] = string(jb)
		c.Violation("parse.exported-json-rejected."+classKey(t), w)
		return false
	}
	ok = inspect(c, t, et, "export", func(stage, what string) map[string]interface{} {
		w := wit(stage, what)
		w["exported"] = string(jb)
		return w
	}) && ok
	c.Count("stage_json_export", 1)
	return ok
}

func classKey(t *txCase) string {
	return []string{"canonical", "noncanonical", "ambiguous"}[t.class]
}

// born: the transaction arrives as RLP bytes built by the harness (what a
// peer that parsed the canonical JSON would send).
func born(c *ev.Ctx, r *rand.Rand, t *txCase) {
	c.Eval(1)
	var b v3bin
	e := t.e
	b.Version.Value = 3
	b.From.SetTypeAndID(false, e.fromRaw[:])
	b.To.SetTypeAndID(e.toSCORE, e.toRaw[:])
	if e.value != nil {
		b.Value = new(common.HexInt)
		b.Value.Set(e.value)
	}
	b.StepLimit.Set(e.step)
	b.TimeStamp.Value = e.ts
	if e.nid != nil {
		b.NID = &common.HexInt64{Value: *e.nid}
	}
	if e.nonce != nil {
		b.Nonce = new(common.HexInt)
		b.Nonce.Set(e.nonce)
	}
	b.Signature = t.sigRSV
	b.DataType = e.dataType
	if e.data != nil {
		st := &sig.Style{R: r, Shuffle: true, UEscape: []int{0, 100}[r.Intn(2)], ShortEsc: r.Intn(2) == 0}
		b.Data = []byte(st.Render(e.data))
	}
	bs, err := codec.MarshalToBytes(&b)
	if err != nil {
		panic(err)
	}
	wit := func(stage, what string) map[string]interface{} {
		return map[string]interface{}{"stage": stage, "what": what, "rlp": hex.EncodeToString(bs), "tx": sig.Plain(t.withSig()),
			"reference_phrase": t.phrase, "reference_id": hex.EncodeToString(t.refID)}
	}
	tx, err := transaction.NewTransaction(bs)
	if err != nil {
		c.Violation("parse.binary-born-rejected", wit("born", err.Error()))
		return
	}
	inspect(c, t, tx, "born", wit)
	// and through JSON export back to the JSON world
	if jb, err := json.Marshal(tx); err != nil {
		c.Violation("export.json-fails", wit("born-export", err.Error()))
	} else if et, err := transaction.NewTransactionFromJSON(jb); err != nil {
		w := wit("born-export", err.Error())
		w["exported"] = string(jb)
		c.Violation("parse.exported-json-rejected.born", w)
	} else {
		inspect(c, t, et, "born-export", wit)
	}
	c.Count("stage_binary_born", 1)
}

func parseIntLit(v interface{}) (*big.Int, bool) {
	switch x := v.(type) {
	case string:
		s := x
		base := 10
		if strings.HasPrefix(s, "0x") {
			s = s[2:]
			base = 16
		}
		return new(big.Int).SetString(s, base)
	case json.Number:
		return new(big.Int).SetString(string(x), 10)
	}
	return nil, false
}

// sameJSON compares a decoded JSON value (decoder with UseNumber) with the generator's tree.
func sameJSON(got interface{}, want *sig.Val) bool {
	switch want.Kind {
	case sig.KStr:
		s, ok := got.(string)
		return ok && s == want.S
	case sig.KNull:
		return got == nil
	case sig.KNum:
		n, ok := got.(json.Number)
		if !ok {
			return false
		}
		a, e1 := strconv.ParseFloat(string(n), 64)
		b, e2 := strconv.ParseFloat(want.S, 64)
		return e1 == nil && e2 == nil && a == b
	case sig.KList:
		l, ok := got.([]interface{})
		if !ok || len(l) != len(want.Vals) {
			return false
		}
		for i := range l {
			if !sameJSON(l[i], want.Vals[i]) {
				return false
			}
		}
		return true
	case sig.KDict:
		m, ok := got.(map[string]interface{})
		if !ok || len(m) != len(want.Keys) {
			return false
		}
		for i, k := range want.Keys {
			x, ok := m[k]
			if !ok || !sameJSON(x, want.Vals[i]) {
				return false
			}
		}
		return true
	}
	return false
}

// inspect compares one transaction object with what the generator knows.
func inspect(c *ev.Ctx, t *txCase, tx transaction.Transaction, stage string, wit func(stage, what string) map[string]interface{}) bool {
	c.Eval(1)
	e := t.e
	ok := true
	bad := func(key, what string) {
		ok = false
		c.Violation(key, wit(stage, what))
	}
	stageKind := strings.TrimRight(stage, "0123456789")
	idOK := true
	if id := tx.ID(); !bytes.Equal(id, t.refID) {
		idOK = false
		switch {
		case t.class == 2:
			bad("id.changes-across-representations."+stageKind, "id "+hex.EncodeToString(id))
		case bytes.Equal(id, quirkTxID(t.tx)):
			bad(knownLeadingEmpty, "id "+hex.EncodeToString(id))
		default:
			bad("id.differs-from-reference."+stageKind+"."+classKey(t), "id "+hex.EncodeToString(id))
		}
	}
	if tx.Version() != module.TransactionVersion3 {
		bad("field.version."+stageKind, fmt.Sprint(tx.Version()))
	}
	if s := tx.From().String(); s != e.from {
		bad("field.from."+stageKind, s)
	}
	if s := tx.To().String(); s != e.to {
		bad("field.to."+stageKind, s)
	}
	if ts := tx.Timestamp(); ts != e.ts {
		bad("field.timestamp."+stageKind, fmt.Sprint(ts))
	}
	if n := tx.Nonce(); (n == nil) != (e.nonce == nil) || n != nil && n.Cmp(e.nonce) != 0 {
		bad("field.nonce."+stageKind, fmt.Sprint(n))
	}
	if e.nid != nil {
		if !tx.ValidateNetwork(int(*e.nid)) || tx.ValidateNetwork(int(*e.nid)+1) {
			bad("field.nid."+stageKind, "ValidateNetwork")
		}
	} else if !tx.ValidateNetwork(1) || !tx.ValidateNetwork(77) {
		bad("field.nid."+stageKind, "ValidateNetwork without nid")
	}
	// the remaining fields through the JSON view
	jb, err := json.Marshal(tx)
	if err != nil {
		bad("export.json-fails", err.Error())
		return false
	}
	var m map[string]interface{}
	dec := json.NewDecoder(bytes.NewReader(jb))
	dec.UseNumber()
	if err := dec.Decode(&m); err != nil {
		bad("export.json-invalid", err.Error()+" "+string(jb))
		return false
	}
	intField := func(name string, want *big.Int) {
		v, has := m[name]
		if want == nil {
			if has {
				bad("field."+name+"."+stageKind, fmt.Sprintf("present: %v", v))
			}
			return
		}
		got, pok := parseIntLit(v)
		if !has || !pok || got.Cmp(want) != 0 {
			bad("field."+name+"."+stageKind, fmt.Sprintf("%v (want 0x%x)", v, want))
		}
	}
	intField("value", e.value)
	intField("stepLimit", e.step)
	intField("timestamp", big.NewInt(e.ts))
	if e.nid != nil {
		intField("nid", big.NewInt(*e.nid))
	} else {
		intField("nid", nil)
	}
	intField("nonce", e.nonce)
	if s, _ := m["from"].(string); strings.ToLower(s) != e.from {
		bad("field.from-json."+stageKind, s)
	}
	if s, _ := m["to"].(string); strings.ToLower(s) != e.to {
		bad("field.to-json."+stageKind, s)
	}
	if dt, has := m["dataType"]; (e.dataType != nil) != has || has && dt != *e.dataType {
		bad("field.dataType."+stageKind, fmt.Sprint(dt))
	}
	if d, has := m["data"]; (e.data != nil) != has || has && !sameJSON(d, e.data) {
		bad("field.data."+stageKind, fmt.Sprint(d))
	}
	if s, _ := m["signature"].(string); s != base64.StdEncoding.EncodeToString(t.sigRSV) {
		bad("field.signature."+stageKind, s)
	}
	if !idOK {
		// txHash and the signature verdict follow from the id; one report is enough
		return false
	}
	if s, _ := m["txHash"].(string); s != "0x"+hex.EncodeToString(t.refID) {
		bad("field.txHash."+stageKind, s)
	}
	verr := tx.Verify()
	if (verr == nil) != t.sigValid {
		bad(fmt.Sprintf("verify.validity-changes.%s.want-%v", stageKind, t.sigValid), fmt.Sprint(verr))
	} else if t.sigValid {
		c.Count("verify_valid", 1)
	} else {
		c.Count("verify_invalid", 1)
	}
	return ok
}

// change: one-step change of a signed field.
func change(c *ev.Ctx, r *rand.Rand, t *txCase, other *sig.Key) {
	m, name := mutate(r, t.tx, other)
	if m == nil {
		c.Count("change_not_applicable", 1)
		return
	}
	c.Eval(1)
	idA := t.gotID
	if idA == nil {
		idA = t.refID
	}
	pa, pb := sig.Plain(t.tx), sig.Plain(m)
	if pa == pb {
		c.Count("change_noop", 1)
		return
	}
	m.Set("signature", sig.Str(base64.StdEncoding.EncodeToString(t.sigRSV)))
	text := []byte(sig.Plain(m))
	tx, err := transaction.NewTransactionFromJSON(text)
	if err != nil {
		c.Count("change_unparsable", 1)
		return
	}
	idB := append([]byte(nil), tx.ID()...)
	wit := func(what string) map[string]interface{} {
		w := map[string]interface{}{"change": name, "what": what, "a": pa, "b": pb, "id_a": hex.EncodeToString(idA), "reference_id_a": hex.EncodeToString(t.refID), "id_b": hex.EncodeToString(idB), "phrase_a": t.phrase}
		return w
	}
	short := strings.TrimPrefix(name, "data.")
	if i := strings.IndexByte(short, '.'); i > 0 {
		short = short[:i]
	}
	if t.class == 2 || m.Ambiguous() {
		// no reference phrase: only the changes whose effect does not depend on the open parts
		if strings.HasPrefix(name, "field-digit") || name == "from-other" || name == "to-prefix" || name == "swap-from-to" {
			if bytes.Equal(idB, idA) {
				c.Violation("change.keeps-id."+short, wit("a changed signed field left the id unchanged"))
			} else {
				c.Count("change_id_differs", 1)
			}
		}
		return
	}
	phB := sig.RefTxPhrase(m)
	if !bytes.Equal(idB, sig.Sha3([]byte(phB))) {
		w := wit("id of the changed transaction differs from the reference")
		w["phrase_b"] = phB
		if bytes.Equal(idB, quirkTxID(m)) {
			c.Violation(knownLeadingEmpty, w)
		} else {
			c.Violation("id.differs-from-reference.changed."+short, w)
		}
	}
	c.NonTrivial("C" + t.phrase + "\x00" + phB)
	if phB == t.phrase {
		// an equivalence of the format itself (e.g. [""] and [])
		c.Count("change_same_phrase_same_id", 1)
		c.Count("equiv_"+short, 1)
		if !bytes.Equal(idB, idA) {
			c.Violation("change.equivalent-forms-different-id."+short, wit("same reference phrase, different id"))
		}
		return
	}
	if bytes.Equal(idB, idA) {
		w := wit("a changed signed field left the id unchanged")
		w["phrase_b"] = phB
		if bytes.Equal(quirkTxID(m), quirkTxID(t.tx)) {
			c.Violation(knownLeadingEmpty, w)
		} else {
			c.Violation("change.keeps-id."+short, w)
		}
		return
	}
	// the old signature must not authorize the changed transaction
	if t.sigValid {
		if tx.Verify() == nil {
			c.Violation("change.old-signature-still-valid."+short, wit("Verify()==nil on the changed transaction"))
		}
	}
	c.Count("change_id_differs", 1)
	c.Count("changed_"+short, 1)
}

// runConcurrent: many goroutines parse / round-trip DIFFERENT ordinary
// transactions at the same time. Each goroutine owns its inputs; whatever
// goloop shares between calls must not leak from one transaction into another.
func runConcurrent(c *ev.Ctx, r *rand.Rand) {
	type one struct {
		text  []byte
		refID []byte
		plain string
	}
	iters := c.Pick(1500, 6000)
	sets := make([][]one, concGoroutines)
	for g := range sets {
		key := sig.NewKey(r)
		for len(sets[g]) < concTxPerG {
			tx, _ := genTx(r, key, 0)
			if tx.Ambiguous() {
				continue
			}
			id := sig.RefTxID(tx)
			if !bytes.Equal(id, quirkTxID(tx)) {
				continue // carries the known list defect: kept out of this phase
			}
			t := &txCase{tx: tx, refID: id, sigRSV: key.SignRSV(id)}
			sets[g] = append(sets[g], one{[]byte(sig.Plain(t.withSig())), id, sig.Plain(tx)})
		}
	}
	c.Note("concurrent phase: %d goroutines x %d iterations", concGoroutines, iters)
	var wg sync.WaitGroup
	start := make(chan struct{})
	for g := 0; g < concGoroutines; g++ {
		wg.Add(1)
		go func(g int) {
			defer wg.Done()
			<-start
			mine := sets[g]
			for i := 0; i < iters && !c.Stopped(); i++ {
				o := mine[i%len(mine)]
				wit := func(what string) map[string]interface{} {
					return map[string]interface{}{"what": what, "goroutine": g, "iteration": i, "goroutines": concGoroutines, "tx_json": string(o.text), "reference_id": hex.EncodeToString(o.refID)}
				}
				tx, err := transaction.NewTransactionFromJSON(o.text)
				if err != nil {
					c.Violation("concurrent.parse-fails", wit(err.Error()))
					continue
				}
				if id := tx.ID(); !bytes.Equal(id, o.refID) {
					c.Violation("concurrent.id-differs-from-reference", wit("id "+hex.EncodeToString(id)+" while other goroutines parse other transactions"))
					continue
				}
				if i%8 == 0 {
					if err := tx.Verify(); err != nil {
						c.Violation("concurrent.verify-fails", wit(err.Error()))
					}
					tx2, err := transaction.NewTransaction(tx.Bytes())
					if err != nil {
						c.Violation("concurrent.stored-form-rejected", wit(err.Error()))
					} else if !bytes.Equal(tx2.ID(), o.refID) {
						c.Violation("concurrent.id-changes-after-reparse", wit("id "+hex.EncodeToString(tx2.ID())))
					}
					c.Count("concurrent_roundtrips", 1)
				}
			}
			c.Count("concurrent_goroutine_runs", 1)
		}(g)
	}
	close(start)
	wg.Wait()
	c.Eval(concGoroutines * iters)
	c.Count("concurrent_parses", concGoroutines*iters)
}
