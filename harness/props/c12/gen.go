package c12

import (
	"encoding/hex"
	"fmt"
	"math/big"
	"math/rand"
	"sort"
	"strings"

	"verif/lib/sig"
)

// expect is what the generator knows about a transaction independently of
// any parser: the meaning of every field.
type expect struct {
	from, to  string // canonical text
	fromRaw   [20]byte
	toRaw     [20]byte
	toSCORE   bool
	value     *big.Int
	step      *big.Int
	ts        int64
	nid       *int64
	nonce     *big.Int
	dataType  *string
	data      *sig.Val
	canonical bool // every literal is in its canonical form and there are no extra fields
	forms     []string
}

const specials = `\{}[].`

var wordChars = []rune("abcdefghijklmnopqrstuvwxyzABCXYZ0123456789_ -,:;/\"'<>&=+*~!?@#$%^()|\t\n")
var uniChars = []rune("éßаяж中文日本語한글  \u0000\u001f\u007f\u0080߿ࠀ￿😀𝄞\U0010ffff")

// genString: strings with the characters the serializer escapes, JSON
// meta-characters, control characters, non-ASCII and astral code points.
func genString(r *rand.Rand) string {
	switch r.Intn(14) {
	case 0:
		return ""
	case 1:
		return string(specials[r.Intn(len(specials))])
	case 2:
		return `\0`
	case 3:
		return []string{".", "..", `\`, `\\`, `\.`, `.\`, "{}", "[]", "{", "}", "[", "]", "a.b", "{a.b}", "[a.b]", `a\.b`, "0x", "null", `\0.\0`}[r.Intn(19)]
	case 4:
		return "0x" + hex.EncodeToString(randBytes(r, r.Intn(24)))
	case 5:
		return "hx" + hex.EncodeToString(randBytes(r, 20))
	}
	n := 1 + r.Intn(12)
	if r.Intn(10) == 0 {
		n = 20 + r.Intn(60)
	}
	var b strings.Builder
	for i := 0; i < n; i++ {
		switch r.Intn(8) {
		case 0, 1:
			b.WriteByte(specials[r.Intn(len(specials))])
		case 2:
			b.WriteRune(uniChars[r.Intn(len(uniChars))])
		default:
			b.WriteRune(wordChars[r.Intn(len(wordChars))])
		}
	}
	return b.String()
}

var plainKeys = []string{"a", "b", "to", "value", "_x", "A", "Z", "a1", "aa", "ab", "address", "amount", "k0", "k1", "k10", "k2", "name", "data", "list", "0", "1", "10", "2", "_", "__", "Value", "vAlue"}

var specialKeys = []string{"a.b.c", "a.b", "k.v", ".", "..", "{", "}", "[", "]", `\\`, `\\0`, "", `a\\.b`, "x{y}", "[0]", "a.{b", "k}", `\\.`, "to.", ".value", "a b", "a,b", `q"uote`, "{a.b}", "[a.b]"}

func hasSpecial(k string) bool {
	return k == "" || strings.ContainsAny(k, `\\{}[].`)
}

// countSpecialKeys counts dictionary keys (at any depth) that are empty or contain an escaped character.
func countSpecialKeys(v *sig.Val) int {
	if v == nil {
		return 0
	}
	n := 0
	if v.Kind == sig.KDict {
		for _, k := range v.Keys {
			if hasSpecial(k) {
				n++
			}
		}
	}
	for _, x := range v.Vals {
		n += countSpecialKeys(x)
	}
	return n
}

func genKey(r *rand.Rand, ambiguous bool) string {
	if ambiguous && r.Intn(3) == 0 {
		switch r.Intn(4) {
		case 0:
			return ""
		case 1:
			return "k" + string(specials[r.Intn(len(specials))]) + "v"
		case 2:
			return string(uniChars[r.Intn(len(uniChars))]) + "k"
		default:
			return genString(r)
		}
	}
	if r.Intn(5) == 0 {
		// keys with the characters the format escapes, empty keys, keys that look like escapes
		return specialKeys[r.Intn(len(specialKeys))]
	}
	if r.Intn(4) == 0 {
		n := 1 + r.Intn(6)
		b := make([]byte, n)
		for i := range b {
			b[i] = "abcxyzABCXYZ019_"[r.Intn(16)]
		}
		return string(b)
	}
	return plainKeys[r.Intn(len(plainKeys))]
}

// genVal builds a nested value. With ambiguous set it also uses numbers and
// keys outside the part of the format the reference is sure about.
func genVal(r *rand.Rand, depth int, ambiguous bool) *sig.Val {
	k := r.Intn(10)
	if depth <= 0 && k >= 6 {
		k = r.Intn(6)
	}
	switch {
	case k < 4:
		return sig.Str(genString(r))
	case k == 4:
		return sig.Null()
	case k == 5:
		if ambiguous && r.Intn(2) == 0 {
			return sig.Num([]string{"0", "1", "-1", "7", "255", "65536", "1000000", "-32768", "2147483648"}[r.Intn(9)])
		}
		return sig.Str(genString(r))
	case k < 8:
		d := sig.Dict()
		n := r.Intn(5)
		if r.Intn(8) == 0 {
			n = 0
		}
		for i := 0; i < n; i++ {
			d.Set(genKey(r, ambiguous), genVal(r, depth-1, ambiguous))
		}
		return d
	default:
		l := sig.List()
		n := r.Intn(5)
		if r.Intn(8) == 0 {
			n = 0
		}
		// empty strings at the ends and in the middle of lists: the places where
		// a separator can get lost
		if r.Intn(6) == 0 {
			l.Vals = append(l.Vals, sig.Str(""))
		}
		for i := 0; i < n; i++ {
			l.Vals = append(l.Vals, genVal(r, depth-1, ambiguous))
			if r.Intn(12) == 0 {
				l.Vals = append(l.Vals, sig.Str(""))
			}
		}
		return l
	}
}

func randBytes(r *rand.Rand, n int) []byte {
	b := make([]byte, n)
	r.Read(b)
	return b
}

func genBig(r *rand.Rand) *big.Int {
	switch r.Intn(8) {
	case 0:
		return big.NewInt(0)
	case 1:
		return big.NewInt(int64(r.Intn(17)))
	case 2, 3:
		k := uint(r.Intn(264))
		v := new(big.Int).Lsh(big.NewInt(1), k)
		switch r.Intn(3) {
		case 0:
			v.Sub(v, big.NewInt(1))
		case 1:
			v.Add(v, big.NewInt(1))
		}
		return v
	default:
		return new(big.Int).SetBytes(randBytes(r, 1+r.Intn(33)))
	}
}

func genInt63(r *rand.Rand) int64 {
	switch r.Intn(6) {
	case 0:
		return int64(r.Intn(3))
	case 1:
		k := uint(r.Intn(63))
		v := int64(1) << k
		return v - int64(r.Intn(2))
	case 2:
		return 1<<63 - 1 - int64(r.Intn(2))
	default:
		return r.Int63()
	}
}

// intLiteral renders an integer; non-canonical forms are accepted by goloop
// and make the struct-side and map-side phrases differ (raw fallback).
func intLiteral(r *rand.Rand, v *big.Int, noncanon bool) (string, string) {
	canon := "0x" + v.Text(16)
	if !noncanon {
		return canon, "canon"
	}
	switch r.Intn(4) {
	case 0:
		return "0x0" + v.Text(16), "leading-zero"
	case 1:
		up := strings.ToUpper(v.Text(16))
		if up != v.Text(16) {
			return "0x" + up, "upper-hex"
		}
		return "0x00" + v.Text(16), "leading-zero"
	case 2:
		if v.Sign() == 0 {
			return "0", "decimal"
		}
		return v.Text(10), "decimal"
	default:
		return canon, "canon"
	}
}

func addrLiteral(r *rand.Rand, score bool, id []byte, noncanon bool) (string, string) {
	p := "hx"
	if score {
		p = "cx"
	}
	body := hex.EncodeToString(id)
	if noncanon && r.Intn(2) == 0 {
		up := strings.ToUpper(body)
		if up != body {
			if r.Intn(2) == 0 {
				// one letter only
				for i := 0; i < len(body); i++ {
					if body[i] >= 'a' {
						return p + body[:i] + up[i:i+1] + body[i+1:], "addr-upper-one"
					}
				}
			}
			return p + up, "addr-upper"
		}
	}
	return p + body, "canon"
}

// genTx builds a transaction object (without signature) and what it means.
// class: 0 canonical, 1 non-canonical literal forms / extra fields (reference
// over the literals), 2 ambiguous (numbers, odd keys; consistency checks only).
func genTx(r *rand.Rand, from *sig.Key, class int) (*sig.Val, *expect) {
	e := &expect{canonical: class == 0}
	nc := class == 1
	amb := class == 2
	tx := sig.Dict()
	note := func(f string) {
		if f != "canon" {
			e.canonical = false
			e.forms = append(e.forms, f)
		}
	}
	tx.Set("version", sig.Str("0x3"))
	e.fromRaw = from.Addr
	e.from = from.HxString()
	lit, f := addrLiteral(r, false, from.Addr[:], nc)
	note(f)
	tx.Set("from", sig.Str(lit))
	copy(e.toRaw[:], randBytes(r, 20))
	if r.Intn(6) == 0 {
		for i := 0; i < 1+r.Intn(19); i++ {
			e.toRaw[i] = 0
		}
	}
	e.step = genBig(r)
	lit, f = intLiteral(r, e.step, nc && r.Intn(3) == 0)
	note(f)
	tx.Set("stepLimit", sig.Str(lit))
	e.ts = genInt63(r)
	lit, f = intLiteral(r, big.NewInt(e.ts), nc && r.Intn(3) == 0)
	note(f)
	tx.Set("timestamp", sig.Str(lit))

	// dataType / data
	kind := r.Intn(8)
	deploy := false
	switch kind {
	case 0, 1: // plain transfer
	case 2: // message
		dt := "message"
		e.dataType = &dt
		if r.Intn(8) != 0 {
			e.data = sig.Str("0x" + hex.EncodeToString(randBytes(r, r.Intn(40))))
		}
	case 3, 4: // call
		dt := "call"
		e.dataType = &dt
		e.toSCORE = true
		d := sig.Dict()
		m := genString(r)
		for m == "" {
			m = genString(r)
		}
		d.Set("method", sig.Str(m))
		if r.Intn(5) != 0 {
			p := genVal(r, 3, amb)
			if r.Intn(3) != 0 && p.Kind != sig.KDict {
				p = sig.Dict().Set(genKey(r, amb), p)
			}
			d.Set("params", p)
		}
		e.data = d
	case 5: // deploy
		dt := "deploy"
		e.dataType = &dt
		e.toSCORE = true
		deploy = true
		d := sig.Dict()
		d.Set("contentType", sig.Str([]string{"application/zip", "application/java", "x.y/z"}[r.Intn(3)]))
		d.Set("content", sig.Str("0x"+hex.EncodeToString(randBytes(r, r.Intn(64)))))
		if r.Intn(2) == 0 {
			d.Set("params", sig.Dict().Set(genKey(r, amb), genVal(r, 2, amb)))
		}
		e.data = d
	case 6: // deposit
		dt := "deposit"
		e.dataType = &dt
		e.toSCORE = true
		d := sig.Dict()
		if r.Intn(2) == 0 {
			d.Set("action", sig.Str("add"))
		} else {
			d.Set("action", sig.Str("withdraw"))
			if r.Intn(2) == 0 {
				d.Set("id", sig.Str("0x"+hex.EncodeToString(randBytes(r, 32))))
			} else if r.Intn(2) == 0 {
				d.Set("amount", sig.Str("0x"+genBig(r).Text(16)))
			}
		}
		e.data = d
	default: // data without a data type (free-form)
		e.data = genVal(r, 3, amb)
		if r.Intn(2) == 0 {
			dt := "message"
			e.dataType = &dt
		}
	}
	if r.Intn(3) == 0 {
		e.toSCORE = !e.toSCORE
	}
	e.to = map[bool]string{false: "hx", true: "cx"}[e.toSCORE] + hex.EncodeToString(e.toRaw[:])
	lit, f = addrLiteral(r, e.toSCORE, e.toRaw[:], nc)
	note(f)
	tx.Set("to", sig.Str(lit))

	if r.Intn(4) != 0 {
		e.value = genBig(r)
		if deploy {
			e.value = big.NewInt(0)
		}
		lit, f = intLiteral(r, e.value, nc && r.Intn(2) == 0)
		note(f)
		if amb && r.Intn(4) == 0 && e.value.BitLen() < 50 {
			// JSON number instead of a string: accepted, outside the format description
			tx.Set("value", sig.Num(e.value.Text(10)))
			e.forms = append(e.forms, "value-json-number")
		} else {
			tx.Set("value", sig.Str(lit))
		}
	}
	if r.Intn(4) != 0 {
		n := int64(r.Intn(1 << 16))
		if r.Intn(4) == 0 {
			n = int64(r.Int31())
		}
		e.nid = &n
		lit, f = intLiteral(r, big.NewInt(n), nc && r.Intn(3) == 0)
		note(f)
		tx.Set("nid", sig.Str(lit))
	}
	if r.Intn(2) == 0 {
		e.nonce = genBig(r)
		lit, f = intLiteral(r, e.nonce, nc && r.Intn(3) == 0)
		note(f)
		tx.Set("nonce", sig.Str(lit))
	}
	if e.dataType != nil {
		tx.Set("dataType", sig.Str(*e.dataType))
	}
	if e.data != nil {
		tx.Set("data", e.data)
	}
	if nc && r.Intn(5) == 0 {
		// unknown extra member: ignored by the struct, part of the signed phrase
		tx.Set([]string{"memo", "x_extra", "note1"}[r.Intn(3)], sig.Str(genString(r)))
		e.canonical = false
		e.forms = append(e.forms, "extra-field")
	}
	// insertion order is the rendering order of Plain(); shuffle it so that
	// it does not coincide with the sorted order
	r.Shuffle(len(tx.Keys), func(i, j int) {
		tx.Keys[i], tx.Keys[j] = tx.Keys[j], tx.Keys[i]
		tx.Vals[i], tx.Vals[j] = tx.Vals[j], tx.Vals[i]
	})
	return tx, e
}

// ---------------------------------------------------------------------------
// one-step changes of a signed field

// nodes lists every value node of a tree with a setter to replace it.
type slot struct {
	get func() *sig.Val
	set func(*sig.Val)
}

func slots(v *sig.Val, out *[]slot) {
	for i := range v.Vals {
		i := i
		*out = append(*out, slot{func() *sig.Val { return v.Vals[i] }, func(x *sig.Val) { v.Vals[i] = x }})
		slots(v.Vals[i], out)
	}
}

func tweakString(r *rand.Rand, s string) string {
	rs := []rune(s)
	switch r.Intn(6) {
	case 0:
		return s + string(wordChars[r.Intn(26)])
	case 1:
		return s + string(specials[r.Intn(len(specials))])
	case 2:
		if len(rs) > 0 {
			i := r.Intn(len(rs))
			return string(rs[:i]) + string(rs[i+1:])
		}
		return "."
	case 3:
		if len(rs) > 0 {
			i := r.Intn(len(rs))
			c := rs[i]
			if c >= 'a' && c <= 'z' {
				rs[i] = c - 32
			} else if c >= 'A' && c <= 'Z' {
				rs[i] = c + 32
			} else {
				rs[i] = 'q'
			}
			return string(rs)
		}
		return `\0`
	case 4:
		i := r.Intn(len(rs) + 1)
		return string(rs[:i]) + string(specials[r.Intn(len(specials))]) + string(rs[i:])
	default:
		i := r.Intn(len(rs) + 1)
		return string(rs[:i]) + `\` + string(rs[i:])
	}
}

func tweakHex(r *rand.Rand, s string) string {
	// change one hex digit after the 2-character prefix
	if len(s) <= 2 {
		return s + "1"
	}
	b := []byte(s)
	i := 2 + r.Intn(len(b)-2)
	old := b[i]
	for b[i] == old {
		b[i] = "0123456789abcdef"[r.Intn(16)]
	}
	if i == 2 && b[i] == '0' && len(b) > 3 {
		b[i] = '1'
		if old == '1' {
			b[i] = '2'
		}
	}
	return string(b)
}

// mutate returns a changed copy of the transaction object and the name of
// the change, or nil when the chosen change does not apply.
func mutate(r *rand.Rand, tx *sig.Val, other *sig.Key) (*sig.Val, string) {
	m := tx.Clone()
	switch r.Intn(16) {
	case 0:
		f := []string{"stepLimit", "timestamp", "value", "nid", "nonce"}[r.Intn(5)]
		if v := m.Get(f); v != nil && v.Kind == sig.KStr && strings.HasPrefix(v.S, "0x") {
			m.Set(f, sig.Str(tweakHex(r, v.S)))
			return m, "field-digit." + f
		}
		return nil, ""
	case 1:
		v := m.Get("to")
		m.Set("to", sig.Str(tweakHex(r, strings.ToLower(v.S))))
		return m, "field-digit.to"
	case 2:
		v := m.Get("to")
		p := "cx"
		if strings.HasPrefix(v.S, "cx") {
			p = "hx"
		}
		m.Set("to", sig.Str(p+v.S[2:]))
		return m, "to-prefix"
	case 3:
		f := []string{"value", "nid", "nonce"}[r.Intn(3)]
		if m.Get(f) == nil {
			m.Set(f, sig.Str("0x0"))
			return m, "add-zero." + f
		}
		m.Del(f)
		return m, "remove." + f
	case 4:
		if m.Get("data") == nil {
			m.Set("data", []*sig.Val{sig.Str(""), sig.Null(), sig.Dict(), sig.List()}[r.Intn(4)])
			return m, "add-empty-data"
		}
		if m.Get("dataType") == nil {
			m.Del("data")
			return m, "remove-data"
		}
		return nil, ""
	case 5:
		if dt := m.Get("dataType"); dt == nil {
			if m.Get("data") != nil && m.Get("data").Kind == sig.KStr {
				m.Set("dataType", sig.Str("message"))
				return m, "add-datatype"
			}
			return nil, ""
		} else if dt.S == "message" {
			m.Del("dataType")
			return m, "remove-datatype"
		}
		return nil, ""
	case 6:
		m.Set("from", sig.Str(other.HxString()))
		return m, "from-other"
	case 7:
		// from <-> to
		f, t := m.Get("from").S, m.Get("to").S
		if strings.HasPrefix(t, "hx") && !strings.EqualFold(f, t) {
			m.Set("from", sig.Str(t))
			m.Set("to", sig.Str(f))
			return m, "swap-from-to"
		}
		return nil, ""
	}
	// changes inside data
	d := m.Get("data")
	if d == nil {
		return nil, ""
	}
	holder := sig.List(d)
	var sl []slot
	slots(holder, &sl)
	s := sl[r.Intn(len(sl))]
	// half of the time prefer a list node when there is one
	if r.Intn(2) == 0 {
		var ls []slot
		for _, c := range sl {
			if c.get().Kind == sig.KList {
				ls = append(ls, c)
			}
		}
		if len(ls) > 0 {
			s = ls[r.Intn(len(ls))]
		}
	}
	defer func() { m.Set("data", holder.Vals[0]) }()
	x := s.get()
	name := ""
	switch x.Kind {
	case sig.KStr:
		switch r.Intn(6) {
		case 0:
			s.set(sig.Null())
			name = "str-to-null"
		case 1:
			parts := strings.Split(x.S, ".")
			if len(parts) < 2 {
				s.set(sig.List(x))
				name = "str-wrap-list"
			} else {
				l := sig.List()
				for _, p := range parts {
					l.Vals = append(l.Vals, sig.Str(p))
				}
				s.set(l)
				name = "str-split-at-dots"
			}
		default:
			s.set(sig.Str(tweakString(r, x.S)))
			name = "str-tweak"
		}
	case sig.KNull:
		s.set(sig.Str([]string{`\0`, "", "null", "0"}[r.Intn(4)]))
		name = "null-to-str"
	case sig.KNum:
		s.set(sig.Num(x.S + "1"))
		name = "num-change"
	case sig.KList, sig.KDict:
		if x.Ambiguous() {
			// structure flattening needs the reference phrase
			s.set(sig.Null())
			name = "container-to-null"
			break
		}
		switch k := r.Intn(9); {
		case k == 0:
			s.set(sig.Str(sig.RefValue(x)))
			name = "container-to-its-phrase"
		case k == 1 && x.Kind == sig.KList:
			// same items as a dict k,v,k,v... (only when items at even places are plain strings)
			d2 := sig.Dict()
			ok := len(x.Vals) >= 2 && len(x.Vals)%2 == 0
			for i := 0; ok && i < len(x.Vals); i += 2 {
				if x.Vals[i].Kind != sig.KStr || d2.Get(x.Vals[i].S) != nil || !plain(x.Vals[i].S) {
					ok = false
					break
				}
				d2.Set(x.Vals[i].S, x.Vals[i+1])
			}
			if !ok {
				return nil, ""
			}
			s.set(d2)
			name = "list-to-dict"
		case k == 1 && x.Kind == sig.KDict:
			l := sig.List()
			for i, kk := range x.Keys {
				l.Vals = append(l.Vals, sig.Str(kk), x.Vals[i])
			}
			s.set(l)
			name = "dict-to-list"
		case k == 2 && x.Kind == sig.KList:
			x.Vals = append([]*sig.Val{sig.Str("")}, x.Vals...)
			name = "list-prepend-empty-string"
		case k == 3 && x.Kind == sig.KList:
			x.Vals = append(x.Vals, sig.Str(""))
			name = "list-append-empty-string"
		case k == 4 && x.Kind == sig.KList && len(x.Vals) >= 2:
			i := r.Intn(len(x.Vals) - 1)
			x.Vals[i], x.Vals[i+1] = x.Vals[i+1], x.Vals[i]
			name = "list-swap-neighbours"
		case k == 5 && len(x.Vals) >= 1:
			i := r.Intn(len(x.Vals))
			if x.Kind == sig.KDict {
				x.Del(x.Keys[i])
			} else {
				x.Vals = append(append([]*sig.Val{}, x.Vals[:i]...), x.Vals[i+1:]...)
			}
			name = "container-remove-item"
		case (k == 6 || k == 0) && x.Kind == sig.KDict && len(x.Keys) >= 2 && r.Intn(2) == 0:
			// {"a":"b","c":"d"} -> {"a.b.c":"d"}: the first two members in key order, when the first value is a string
			idx := make([]int, len(x.Keys))
			for i := range idx {
				idx[i] = i
			}
			sort.Slice(idx, func(a, b int) bool { return x.Keys[idx[a]] < x.Keys[idx[b]] })
			i0, i1 := idx[0], idx[1]
			if x.Vals[i0].Kind != sig.KStr {
				return nil, ""
			}
			nk := x.Keys[i0] + "." + x.Vals[i0].S + "." + x.Keys[i1]
			v1 := x.Vals[i1]
			k0 := x.Keys[i0]
			k1 := x.Keys[i1]
			x.Del(k0)
			x.Del(k1)
			if x.Get(nk) != nil {
				return nil, ""
			}
			// keep it the smallest key so that the flattened text stands where the two members stood
			x.Keys = append([]string{nk}, x.Keys...)
			x.Vals = append([]*sig.Val{v1}, x.Vals...)
			name = "dict-flatten-two-members-into-one-key"
		case k == 6 && x.Kind == sig.KDict && len(x.Keys) >= 1 && r.Intn(2) == 0:
			// nested -> flat: {"a":{"b":"c"}} -> {"a.{b":"c}"}  (same text if keys were written raw)
			i := r.Intn(len(x.Keys))
			in := x.Vals[i]
			if in.Kind != sig.KDict || len(in.Keys) != 1 || in.Vals[0].Kind != sig.KStr {
				return nil, ""
			}
			nk := x.Keys[i] + ".{" + in.Keys[0]
			if x.Get(nk) != nil {
				return nil, ""
			}
			x.Keys[i] = nk
			x.Vals[i] = sig.Str(in.Vals[0].S + "}")
			name = "dict-nested-to-flat-key"
		case k == 6 && x.Kind == sig.KDict && len(x.Keys) >= 1:
			i := r.Intn(len(x.Keys))
			nk := x.Keys[i] + "x"
			if x.Get(nk) != nil {
				return nil, ""
			}
			x.Keys[i] = nk
			name = "dict-rename-key"
		case k == 7 && x.Kind == sig.KList:
			s.set(sig.List(x))
			name = "list-nest"
		case k == 8 && x.Kind == sig.KList && len(x.Vals) >= 2:
			// merge two neighbouring strings with a dot: ["a","b"] -> ["a.b"]
			i := r.Intn(len(x.Vals) - 1)
			if x.Vals[i].Kind == sig.KStr && x.Vals[i+1].Kind == sig.KStr {
				merged := sig.Str(x.Vals[i].S + "." + x.Vals[i+1].S)
				x.Vals = append(append(append([]*sig.Val{}, x.Vals[:i]...), merged), x.Vals[i+2:]...)
				name = "list-merge-with-dot"
			} else {
				return nil, ""
			}
		default:
			if x.Kind == sig.KDict {
				nk := fmt.Sprintf("n%d", r.Intn(100))
				if x.Get(nk) != nil {
					return nil, ""
				}
				x.Set(nk, sig.Str(""))
				name = "dict-add-empty-member"
			} else {
				x.Vals = append(x.Vals, sig.Null())
				name = "list-append-null"
			}
		}
	}
	if name == "" {
		return nil, ""
	}
	return m, "data." + name
}

func plain(k string) bool {
	if k == "" {
		return false
	}
	for i := 0; i < len(k); i++ {
		c := k[i]
		if !(c >= 'a' && c <= 'z' || c >= 'A' && c <= 'Z' || c >= '0' && c <= '9' || c == '_') {
			return false
		}
	}
	return true
}

// quirkPhrase is NOT an oracle. It re-creates one specific wrong answer (a
// list serializer that writes the separator only when its buffer is not
// empty, so leading empty strings vanish: ["","a"] -> [a]) for the sole
// purpose of giving that defect its own violation key: a mismatch is
// attributed to it only when goloop's id equals the id of this phrase.
func quirkValue(v *sig.Val) string {
	switch v.Kind {
	case sig.KList:
		out := ""
		for _, x := range v.Vals {
			f := quirkValue(x)
			if out != "" {
				out += "."
			}
			out += f
		}
		return "[" + out + "]"
	case sig.KDict:
		return "{" + quirkItems(v, nil) + "}"
	}
	return sig.RefValue(v)
}

func quirkItems(v *sig.Val, skip map[string]bool) string {
	idx := []int{}
	for i, k := range v.Keys {
		if !skip[k] {
			idx = append(idx, i)
		}
	}
	sort.Slice(idx, func(a, b int) bool { return v.Keys[idx[a]] < v.Keys[idx[b]] })
	parts := []string{}
	for _, i := range idx {
		parts = append(parts, sig.RefEscape(v.Keys[i]), quirkValue(v.Vals[i]))
	}
	return strings.Join(parts, ".")
}

func quirkTxID(tx *sig.Val) []byte {
	return sig.Sha3([]byte("icx_sendTransaction." + quirkItems(tx, map[string]bool{"signature": true, "txHash": true})))
}
