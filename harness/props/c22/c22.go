// Package c22: transaction and receipt lists preserve order and index.
//
// Real code driven: transaction.NewTransactionListFromSlice / FromHash /
// WithBuilder-free reload, TransactionList.Iterator / Get / Flush / Hash,
// transaction.NewTransactionListV1FromSlice, txresult.NewReceiptListFromSlice
// / FromHash, ReceiptList.Iterator / Get / GetProof-free, over real v3
// transactions (parsed from JSON) and real receipts, on a MapDB.
// Oracle: the input slice.
package c22

import (
	"bytes"
	"encoding/base64"
	"encoding/hex"
	"fmt"
	"math/big"
	"math/rand"

	"github.com/icon-project/goloop/common"
	"github.com/icon-project/goloop/common/db"
	"github.com/icon-project/goloop/common/log"
	"github.com/icon-project/goloop/module"
	"github.com/icon-project/goloop/service/transaction"
	"github.com/icon-project/goloop/service/txresult"

	"verif/lib/ev"
)

// sizes crossing the index-key length boundaries (1-byte keys 0..127, "82 xx
// xx" keys 128..32767, "83 xx xx xx" keys from 32768) and trie shape
// boundaries (16, 256).
var quickSizes = []int{0, 1, 2, 3, 15, 16, 17, 33, 49, 55, 56, 65, 145, 241, 273, 1009, 127, 128, 129, 255, 256, 257, 1000, 4095, 4096, 4097, 32767, 32768, 32769}

const thoroughRandom = 200

func sizesFor(tier string) []int {
	if tier == ev.Thorough {
		s := append([]int(nil), quickSizes...)
		s = append(s, 65535, 65536, 65537, 70000)
		for i := 0; i < thoroughRandom; i++ {
			s = append(s, -1) // random size drawn from the case PRNG
		}
		return s
	}
	// quick: the fixed sizes + a few random ones
	s := append([]int(nil), quickSizes...)
	for i := 0; i < 10; i++ {
		s = append(s, -1)
	}
	return s
}

func init() {
	ev.Register(&ev.Prop{
		ID:    "C22",
		Level: "exploration",
		Cases: func(t string) int { return len(sizesFor(t)) },
		Batches: func(t string) int {
			return 16
		},
		Rule: "each case = one list size n (fixed sizes 0,1,2,3,15,16,17,33,49,55,56,65,145,241,273,1009,127,128,129,255,256,257,1000,4095,4096,4097,32767,32768,32769 [thorough: +65535,65536,65537,70000] and random sizes biased to the key-length boundaries 128 and 32768); n real v3 transactions (distinct nonce/timestamp/value => distinct ids) and n real receipts (index-dependent step/cumulative/to/status/event log, receipt versions mixed) are put in a transaction list (trie based and V1) and a receipt list; iteration must yield item i at position i with index i, Get(i) must return item i for every i (all i up to 5000, then boundary-biased sample), before Flush, after Flush and after reload from the hash in a fresh list object; on each of the three receipt-list objects read-only GetProof calls for existing and absent indexes (n, n+1, rest of the trailing block of 16, next block, far indexes; sizes n = 16k+1 included) are interleaved and the whole order/index/Get check is repeated on the same object afterwards. Non-trivial = distinct (list kind, n, content) with n >= 2; boundary counters say which key lengths were crossed.",
		MinNonTrivial: func(t string) int { return 40 },
		Required: []string{"tx_lists", "receipt_lists", "txv1_lists", "iter_items_checked", "get_checked", "reloaded_lists", "sizes_ge_128", "sizes_ge_32768", "sizes_at_key_boundary", "empty_lists", "proofs_existing_index", "proofs_missing_index", "proofs_missing_in_trailing_block", "sizes_16k_plus_1", "post_proof_rechecks"},
		Assumptions: []string{
			"MapDB is the store; transactions are syntactically valid v3 transfers with an unverified signature (lists never verify signatures)",
			"identity of an item = its id / serialized bytes",
		},
		TimeoutSec: func(t string) int {
			if t == ev.Thorough {
				return 5400
			}
			return 900
		},
		Env: func(string, int) []string { return []string{"GOGC=200"} },
		Run: run,
	})
}

func addrOf(prefix byte, i int, salt uint32) *common.Address {
	var a common.Address
	a[0] = prefix
	a[1] = byte(salt >> 24)
	a[2] = byte(salt >> 16)
	a[3] = byte(salt >> 8)
	a[4] = byte(salt)
	a[17] = byte(i >> 24)
	a[18] = byte(i >> 16)
	a[19] = byte(i >> 8)
	a[20] = byte(i)
	return &a
}

func makeTx(i int, salt uint32, sig string) (module.Transaction, error) {
	js := fmt.Sprintf(`{"version":"0x3","from":"%s","to":"%s","value":"0x%x","stepLimit":"0x%x","timestamp":"0x%x","nid":"0x1","nonce":"0x%x","signature":"%s"}`,
		addrOf(0, i, salt).String(), addrOf(0, i+1, salt^0x5a5a5a5a).String(), i+1, 100000+i, int64(1600000000000000)+int64(i), i, sig)
	return transaction.NewTransactionFromJSON([]byte(js))
}

func makeReceipt(dbase db.Database, i int, salt uint32) txresult.Receipt {
	var rev module.Revision
	if i%3 != 0 {
		rev = module.LatestRevision
	}
	to := addrOf(byte(i&1), i, salt)
	r := txresult.NewReceipt(dbase, rev, to)
	if i%3 == 2 {
		r.AddPayment(to, big.NewInt(int64(i+1)), nil)
	}
	if i%4 == 1 {
		r.AddLog(to, [][]byte{[]byte("Ev(int)"), big.NewInt(int64(i)).Bytes()}, nil)
	}
	r.SetCumulativeStepUsed(big.NewInt(int64(i) * 7))
	st := module.StatusSuccess
	if i%5 == 4 {
		st = module.StatusUnknownFailure
	}
	r.SetResult(st, big.NewInt(int64(i)+1), big.NewInt(int64(salt%1000)), nil)
	return r
}

func hx(b []byte) string { return hex.EncodeToString(b) }

// indices to look up: all when small, else all boundaries + a sample
func lookupIndices(r *rand.Rand, n int) []int {
	if n <= 5000 {
		l := make([]int, n)
		for i := range l {
			l[i] = i
		}
		r.Shuffle(n, func(i, j int) { l[i], l[j] = l[j], l[i] })
		return l
	}
	seen := map[int]bool{}
	var l []int
	add := func(i int) {
		if i >= 0 && i < n && !seen[i] {
			seen[i] = true
			l = append(l, i)
		}
	}
	for _, b := range []int{0, 1, 15, 16, 127, 128, 129, 255, 256, 257, 4095, 4096, 32767, 32768, 32769, 65535, 65536, 65537, n - 2, n - 1} {
		add(b)
	}
	for k := 0; k < 3000; k++ {
		add(r.Intn(n))
	}
	return l
}

type txView struct {
	name string
	list module.TransactionList
}

func checkTxList(c *ev.Ctx, r *rand.Rand, v txView, want []module.Transaction) bool {
	n := len(want)
	pos := 0
	for itr := v.list.Iterator(); itr.Has(); {
		tx, idx, err := itr.Get()
		if err != nil {
			c.Violation("tx."+v.name+".iterator-error", map[string]interface{}{"n": n, "position": pos, "err": err.Error()})
			return false
		}
		if pos >= n {
			c.Violation("tx."+v.name+".iterator-yields-too-many", map[string]interface{}{"n": n, "position": pos})
			return false
		}
		if idx != pos {
			c.Violation("tx."+v.name+".iterator-wrong-index", map[string]interface{}{"n": n, "position": pos, "reported_index": idx})
			return false
		}
		if tx == nil || !bytes.Equal(tx.ID(), want[pos].ID()) || !bytes.Equal(tx.Bytes(), want[pos].Bytes()) {
			got := "nil"
			if tx != nil {
				got = hx(tx.ID())
			}
			c.Violation("tx."+v.name+".iterator-wrong-order", map[string]interface{}{"n": n, "position": pos, "want_id": hx(want[pos].ID()), "got_id": got, "got_is_input_index": findTx(want, tx)})
			return false
		}
		pos++
		if err := itr.Next(); err != nil {
			c.Violation("tx."+v.name+".iterator-next-error", map[string]interface{}{"n": n, "position": pos, "err": err.Error()})
			return false
		}
	}
	if pos != n {
		c.Violation("tx."+v.name+".iterator-yields-too-few", map[string]interface{}{"n": n, "yielded": pos})
		return false
	}
	c.Count("iter_items_checked", n)
	for _, i := range lookupIndices(r, n) {
		tx, err := v.list.Get(i)
		if err != nil || tx == nil {
			c.Violation("tx."+v.name+".get-error", map[string]interface{}{"n": n, "index": i, "err": fmt.Sprint(err)})
			return false
		}
		if !bytes.Equal(tx.ID(), want[i].ID()) {
			c.Violation("tx."+v.name+".get-wrong-item", map[string]interface{}{"n": n, "index": i, "want_id": hx(want[i].ID()), "got_id": hx(tx.ID()), "got_is_input_index": findTx(want, tx)})
			return false
		}
		c.Count("get_checked", 1)
	}
	return true
}

func findTx(want []module.Transaction, tx module.Transaction) int {
	if tx == nil {
		return -1
	}
	for i, w := range want {
		if bytes.Equal(w.ID(), tx.ID()) {
			return i
		}
	}
	return -1
}

func findRct(want [][]byte, b []byte) int {
	for i, w := range want {
		if bytes.Equal(w, b) {
			return i
		}
	}
	return -1
}

func checkRctList(c *ev.Ctx, r *rand.Rand, name string, list module.ReceiptList, want [][]byte) bool {
	n := len(want)
	pos := 0
	for itr := list.Iterator(); itr.Has(); {
		rc, err := itr.Get()
		if err != nil {
			c.Violation("receipt."+name+".iterator-error", map[string]interface{}{"n": n, "position": pos, "err": err.Error()})
			return false
		}
		if pos >= n {
			c.Violation("receipt."+name+".iterator-yields-too-many", map[string]interface{}{"n": n, "position": pos})
			return false
		}
		if rc == nil || !bytes.Equal(rc.Bytes(), want[pos]) {
			w := map[string]interface{}{"n": n, "position": pos}
			if rc != nil {
				w["got_is_input_index"] = findRct(want, rc.Bytes())
				w["got_step_used"] = rc.StepUsed().String()
			}
			c.Violation("receipt."+name+".iterator-wrong-order", w)
			return false
		}
		// index-dependent field, independent of the serialization
		if rc.StepUsed().Int64() != int64(pos)+1 || rc.CumulativeStepUsed().Int64() != int64(pos)*7 {
			c.Violation("receipt."+name+".iterator-wrong-content", map[string]interface{}{"n": n, "position": pos, "step_used": rc.StepUsed().String()})
			return false
		}
		pos++
		if err := itr.Next(); err != nil {
			c.Violation("receipt."+name+".iterator-next-error", map[string]interface{}{"n": n, "position": pos, "err": err.Error()})
			return false
		}
	}
	if pos != n {
		c.Violation("receipt."+name+".iterator-yields-too-few", map[string]interface{}{"n": n, "yielded": pos})
		return false
	}
	c.Count("iter_items_checked", n)
	for _, i := range lookupIndices(r, n) {
		rc, err := list.Get(i)
		if err != nil || rc == nil {
			c.Violation("receipt."+name+".get-error", map[string]interface{}{"n": n, "index": i, "err": fmt.Sprint(err)})
			return false
		}
		if !bytes.Equal(rc.Bytes(), want[i]) || rc.StepUsed().Int64() != int64(i)+1 {
			c.Violation("receipt."+name+".get-wrong-item", map[string]interface{}{"n": n, "index": i, "got_step_used": rc.StepUsed().String(), "got_is_input_index": findRct(want, rc.Bytes())})
			return false
		}
		c.Count("get_checked", 1)
	}
	return true
}

// proofPhase issues read-only GetProof calls on the list: existing indexes and
// absent ones (n, n+1, the rest of the trailing block of 16, the next block,
// far-away and negative-free large indexes). The statement does not speak
// about proofs themselves; what is judged is that the list is unchanged
// afterwards (the caller re-runs the order/index/Get checks on the same object).
func proofPhase(c *ev.Ctx, r *rand.Rand, name string, list module.ReceiptList, n int) {
	defer func() {
		if p := recover(); p != nil {
			c.Violation("receipt."+name+".getproof-panic", map[string]interface{}{"n": n, "panic": fmt.Sprint(p)})
		}
	}()
	var idx []int
	for k := 0; k < 40 && n > 0; k++ {
		idx = append(idx, r.Intn(n))
	}
	if n > 0 {
		idx = append(idx, 0, n-1, (n-1)/16*16)
	}
	existing := len(idx)
	for i := n; i < (n/16+2)*16; i++ { // rest of the trailing block and the following one
		idx = append(idx, i)
	}
	idx = append(idx, 2*n, 2*n+1, 127, 128, 255, 256, 4096, 32767, 32768, 65536, 1<<20, n+r.Intn(1000))
	// interleave existing and absent ones
	r.Shuffle(len(idx), func(i, j int) { idx[i], idx[j] = idx[j], idx[i] })
	_ = existing
	for _, i := range idx {
		proof, err := list.GetProof(i)
		if i < n {
			c.Count("proofs_existing_index", 1)
			if err != nil || len(proof) == 0 {
				c.Violation("receipt."+name+".getproof-existing-fails", map[string]interface{}{"n": n, "index": i, "err": fmt.Sprint(err)})
				return
			}
		} else {
			c.Count("proofs_missing_index", 1)
			if i/16 == (n-1)/16 && n > 0 {
				c.Count("proofs_missing_in_trailing_block", 1)
			}
		}
	}
}

func run(c *ev.Ctx) {
	log.GlobalLogger().SetLevel(log.FatalLevel)
	sizes := sizesFor(c.Tier)
	c.Cases(func(ci int, r *rand.Rand) {
		n := sizes[ci]
		if n < 0 {
			switch r.Intn(6) {
			case 0:
				n = 120 + r.Intn(20)
			case 1:
				n = 32760 + r.Intn(20)
			case 2:
				n = r.Intn(300)
			case 3:
				n = r.Intn(5000)
			case 4:
				n = 16*r.Intn(40) + 1
			default:
				n = r.Intn(c.Pick(20000, 66000))
			}
		}
		salt := r.Uint32()
		c.Note("n=%d salt=%08x", n, salt)
		if n == 0 {
			c.Count("empty_lists", 1)
		}
		if n >= 128 {
			c.Count("sizes_ge_128", 1)
		}
		if n >= 32768 {
			c.Count("sizes_ge_32768", 1)
		}
		switch n {
		case 127, 128, 129, 255, 256, 257, 32767, 32768, 32769, 65535, 65536, 65537:
			c.Count("sizes_at_key_boundary", 1)
		}
		sigb := make([]byte, 65)
		r.Read(sigb)
		sigb[64] &= 1
		sig := base64.StdEncoding.EncodeToString(sigb)

		// ---- transactions ----
		txs := make([]module.Transaction, n)
		for i := range txs {
			tx, err := makeTx(i, salt, sig)
			if err != nil {
				panic(fmt.Sprintf("harness: cannot build transaction %d: %v", i, err))
			}
			txs[i] = tx
		}
		if n >= 2 && bytes.Equal(txs[0].ID(), txs[1].ID()) {
			panic("harness: transaction ids are not distinct")
		}
		dbase := db.NewMapDB()
		tl := transaction.NewTransactionListFromSlice(dbase, txs)
		c.Count("tx_lists", 1)
		c.Eval(6) // seven list views are evaluated per size: tx fresh/flushed/reloaded/v1, receipts fresh/flushed/reloaded
		ok := checkTxList(c, r, txView{"fresh", tl}, txs)
		h := tl.Hash()
		if ok {
			if err := tl.Flush(); err != nil {
				c.Violation("tx.flush-error", map[string]interface{}{"n": n, "err": err.Error()})
				ok = false
			}
		}
		if ok {
			ok = checkTxList(c, r, txView{"flushed", tl}, txs)
		}
		if ok {
			tl2 := transaction.NewTransactionListFromHash(dbase, h)
			c.Count("reloaded_lists", 1)
			ok = checkTxList(c, r, txView{"reloaded", tl2}, txs)
			if ok && !tl2.Equal(tl) {
				c.Violation("tx.reloaded-not-equal", map[string]interface{}{"n": n})
			}
		}
		// legacy V1 list (plain slice with a merkle hash)
		v1 := transaction.NewTransactionListV1FromSlice(txs)
		c.Count("txv1_lists", 1)
		checkTxList(c, r, txView{"v1", v1}, txs)
		if n >= 2 {
			c.NonTrivial(fmt.Sprintf("tx/%d/%x", n, h))
		}

		// ---- receipts ----
		rdb := db.NewMapDB()
		rcts := make([]txresult.Receipt, n)
		want := make([][]byte, n)
		for i := range rcts {
			rcts[i] = makeReceipt(rdb, i, salt)
		}
		rl := txresult.NewReceiptListFromSlice(rdb, rcts)
		rh := rl.Hash() // fixes the event-log hashes inside the receipts as well
		for i := range rcts {
			want[i] = append([]byte(nil), rcts[i].Bytes()...)
		}
		c.Count("receipt_lists", 1)
		if n%16 == 1 {
			c.Count("sizes_16k_plus_1", 1)
		}
		recheck := func(name string, l module.ReceiptList) bool {
			proofPhase(c, r, name, l, n)
			c.Count("post_proof_rechecks", 1)
			return checkRctList(c, r, name+"-after-proofs", l, want)
		}
		rok := checkRctList(c, r, "fresh", rl, want) && recheck("fresh", rl)
		if rok {
			if err := rl.Flush(); err != nil {
				c.Violation("receipt.flush-error", map[string]interface{}{"n": n, "err": err.Error()})
				rok = false
			}
		}
		if rok {
			rok = checkRctList(c, r, "flushed", rl, want) && (n > 5000 || recheck("flushed", rl)) // big lists: proofs on the fresh and reloaded objects only
		}
		if rok {
			rl2 := txresult.NewReceiptListFromHash(rdb, rh)
			c.Count("reloaded_lists", 1)
			if checkRctList(c, r, "reloaded", rl2, want) && recheck("reloaded", rl2) {
				// a second reload sees what the first one (and the proofs on it) left in the DB
				checkRctList(c, r, "reloaded-again", txresult.NewReceiptListFromHash(rdb, rh), want)
			}
		}
		if n >= 2 {
			c.NonTrivial(fmt.Sprintf("rct/%d/%x", n, rh))
		}
		if c.WantSample() && n > 0 {
			c.Sample(map[string]interface{}{"n": n, "tx_list_hash": hx(h), "receipt_list_hash": hx(rh), "tx0_id": hx(txs[0].ID()), "txlast_id": hx(txs[n-1].ID())})
		}
	})
}
