#!/bin/bash
# second round: tools/mkseed2.sh C03  -> worktree /tmp/seed-C03b, prompt names the site already used in round 1
id=$1; sfx=b
wt=/tmp/seed-$id$sfx
git -C /repo worktree remove --force $wt >/dev/null 2>&1
git -C /repo worktree add --detach $wt HEAD >/dev/null 2>&1
mkdir -p /tmp/seed-out/$id$sfx
used=$(grep -h '^+++ b/' /verif/seeded/$id/patch.diff | sed 's/^+++ b\///' | tr '\n' ' ')
func=$(grep -h '^@@' /verif/seeded/$id/patch.diff | sed 's/.*@@ *//' | head -3 | tr '\n' ';')
echo "Read /tmp/seed-prompt.md and follow it exactly."
echo "Your scratch worktree: $wt (a git worktree of goloop at the commit under study)."
echo "<OUT> = /tmp/seed-out/$id$sfx"
echo "A colleague already produced a regression for this property in: $used ($func). Yours must be DIFFERENT in kind and place: another function (preferably another file) that the property depends on, and another way to manifest (if theirs needs an unusual input, prefer a multi-step sequence, an interleaving, a crash point, or two cooperating sites; and vice versa)."
echo "The property (JSON record):"
jq -c "select(.id==\"$id\")" /verif/properties.jsonl
