#!/usr/bin/env python3
"""Generate /verif/MANIFEST.json from tools/checks.py (single source of truth)."""
import json, os, subprocess, sys
root = os.path.dirname(os.path.dirname(os.path.abspath(__file__)))
sys.path.insert(0, os.path.join(root, 'tools'))
from checks import CHECKS, NOT_APPLICABLE, HOOK_COMMITS
ids = [json.loads(l)['id'] for l in open(os.path.join(root, 'properties.jsonl'))]
checks = []
for i in ids:
    if i not in CHECKS:
        continue
    c = CHECKS[i]
    checks.append({
        "property_id": i,
        "quick_cmd": "./check %s quick" % i,
        "thorough_cmd": "./check %s thorough" % i,
        "evidence_file": "/verif/evidence/%s.json" % i,
        "replay_cmd_template": "./check %s --replay {path}" % i,
        "engine": "harness",
        "level_claimed": {"category": c["level"], "text": c["text"], "design_ref": "DESIGN.md section 4, %s" % i},
        "level_note": c["note"],
        "technique": c["technique"],
    })
na = [{"property_id": i, "reason": NOT_APPLICABLE.get(i, "check not built yet in this round; see DESIGN.md section 4")} for i in ids if i not in CHECKS]
m = {
    "version": 1,
    "setup_cmd": "./setup.sh",
    "hooks": {
        "guard": "verif",
        "enable": "go build -tags verif (the harness module /verif/harness replaces github.com/icon-project/goloop with /repo)",
        "baseline_off_cmd": "cd /repo && GOFLAGS=-mod=mod GOPROXY=off GOSUMDB=off go test -vet=off -count=1 -timeout 25m ./...",
        "source_commits": HOOK_COMMITS,
        "add_only": True,
    },
    "engines": [{
        "name": "harness", "path": "/verif/harness",
        "serves_properties": [c["property_id"] for c in checks],
        "kind_free_text": "Go harness linked against /repo (replace directive, -tags verif); runs real goloop code under generated/hostile/stress workloads in child processes per batch with the Go race detector (and checkptr); monitors = reference-model, independent-oracle, trace and crash-enumeration checkers; parent merges journals into evidence",
    }],
    "checks": checks,
    "not_applicable": na,
    "notes": "Runtime monitoring and sanitizers only. Exit 0 = held on everything explored; 1 = VIOLATION line; 2 = INCONCLUSIVE (watchdog / monitor observed too little), never folded into held.",
}
json.dump(m, open(os.path.join(root, 'MANIFEST.json'), 'w'), indent=1)
print("wrote MANIFEST.json with %d checks, %d not_applicable" % (len(checks), len(na)))
