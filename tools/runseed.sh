#!/bin/bash
# usage: tools/runseed.sh <id> [suffix] [tier]
# Confirms a seeded change (patch applies, builds, demo fails with / passes without) in a scratch
# worktree, then runs the property's check against it. Results under /verif/seeded/<id><suffix>/.
export GOFLAGS=-mod=mod GOPROXY=off GOSUMDB=off GOTOOLCHAIN=local
id=$1; sfx=${2:-}; tier=${3:-quick}
src=/tmp/seed-out/$id$sfx
dst=/verif/seeded/$id$sfx
wt=/tmp/eval-$id$sfx
[ -f $src/patch.diff ] || { echo "no patch in $src"; exit 2; }
mkdir -p $dst; cp -r $src/* $dst/ 2>/dev/null
git -C /repo worktree remove --force $wt >/dev/null 2>&1
git -C /repo worktree add --detach $wt HEAD >/dev/null 2>&1 || { echo "worktree failed"; exit 2; }
cd $wt
log=$dst/confirm.log; : > $log
if ! git apply --check $dst/patch.diff 2>>$log; then echo "PATCH-DOES-NOT-APPLY" | tee -a $log; fi
# demo placement
demopath=$(grep -oE '[A-Za-z0-9_/.-]+/[A-Za-z0-9_.-]+_test\.go' $dst/demo_path.txt 2>/dev/null | head -1)
democmd=$(grep -E 'go test|go run' $dst/demo_path.txt 2>/dev/null | grep -v '^ *cp ' | head -1 | sed 's/^[ `$]*//; s/`$//; s/^cd <[^>]*> *&& *//; s/^cd [^ ]* *&& *//; s/^[A-Za-z ]*: *//; s/ *2>&1 *|.*$//; s/ *| *grep.*$//')
echo "demo path: $demopath ; cmd: $democmd" >> $log
place_demo(){ if [ -d $dst/demo ]; then mkdir -p $wt/$demopath; cp -r $dst/demo/* $wt/$demopath/; else f=$(ls $dst/*_test.go $dst/demo*.go 2>/dev/null | head -1); mkdir -p $(dirname $wt/$demopath); cp $f $wt/$demopath; fi; }
place_demo
echo "== demo WITHOUT change" >> $log
( cd $wt && timeout 900 bash -c "$democmd" ) >> $log 2>&1; rc_without=$?
git apply $dst/patch.diff 2>>$log
echo "== build WITH change" >> $log
( cd $wt && go build ./... ) >> $log 2>&1; rc_build=$?
echo "== demo WITH change" >> $log
( cd $wt && timeout 900 bash -c "$democmd" ) >> $log 2>&1; rc_with=$?
# remove demo before running the check (not part of the change)
if [ -d $dst/demo ]; then rm -rf $wt/$demopath; else rm -f $wt/$demopath; fi
echo "== check $id $tier against the changed tree" >> $log
cd /verif
t0=$(date +%s)
VERIF_REPO=$wt ./check $id $tier > $dst/check.out 2>&1; rc_check=$?
t1=$(date +%s)
cat $dst/check.out >> $log
keys=$(grep -o "key=[^ ]*" $dst/check.out | sort -u | tr '\n' ' ')
python3 - <<PY
import json, os
old = {}
if os.path.exists("$dst/meta.json"):
    try: old = json.load(open("$dst/meta.json"))
    except Exception: old = {}
m = {"property":"$id","patch":"patch.diff","demo":"$demopath","demo_cmd":"""$democmd""",
 "confirmed":{"builds":$rc_build==0,"demo_passes_without_change":$rc_without==0,"demo_fails_with_change":$rc_with!=0},
 "check":{"cmd":"VERIF_REPO=<worktree with patch> ./check $id $tier","exit":$rc_check,"detected":$rc_check==1,"keys":"$keys".split(),"wall_s":$t1-$t0},
 "needs":"see notes.md"}
for k in ("needs", "change", "result", "what_was_run"):
    if k in old and old[k] != "see notes.md": m[k] = old[k]
json.dump(m, open("$dst/meta.json","w"), indent=1)
PY
echo "$id$sfx: build=$rc_build demo_without=$rc_without demo_with=$rc_with check_exit=$rc_check keys=$keys"
git -C /repo worktree remove --force $wt >/dev/null 2>&1
rm -rf /tmp/verif-out-_tmp_eval_${id}*
