#!/usr/bin/env python3
"""Validate MANIFEST.json and evidence files against the schemas in /root/.vp."""
import json, sys, glob, os
import jsonschema
root = os.path.dirname(os.path.dirname(os.path.abspath(__file__)))
ok = True
ms = json.load(open('/root/.vp/MANIFEST.schema.json'))
es = json.load(open('/root/.vp/EVIDENCE.schema.json'))
m = json.load(open(os.path.join(root, 'MANIFEST.json')))
try:
    jsonschema.validate(m, ms)
    print("MANIFEST ok: %d checks, %d not_applicable" % (len(m['checks']), len(m.get('not_applicable', []))))
except jsonschema.ValidationError as e:
    ok = False
    print("MANIFEST INVALID:", e.message)
ids = [json.loads(l)['id'] for l in open(os.path.join(root, 'properties.jsonl'))]
claimed = [c['property_id'] for c in m['checks']]
na = [c['property_id'] for c in m.get('not_applicable', [])]
for i in ids:
    if (i in claimed) == (i in na):
        ok = False
        print("property", i, "must be exactly one of claimed / not_applicable")
for f in sorted(glob.glob(os.path.join(root, 'evidence', '*.json'))):
    try:
        e = json.load(open(f))
        jsonschema.validate(e, es)
        c = e['coverage']
        print("%s ok tier=%s eval=%s nontrivial=%s viol=%s wall=%.0fs" % (os.path.basename(f), e['tier'], c.get('evaluations'), c.get('distinct_nontrivial'), e.get('violations'), e['wall_s']))
    except Exception as ex:
        ok = False
        print(f, "INVALID:", getattr(ex, 'message', ex))
sys.exit(0 if ok else 1)
