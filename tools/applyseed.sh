#!/bin/bash
# usage: tools/applyseed.sh <seed dir name under /verif/seeded> [tier]
# The route a user of the checks would take: apply the seeded change to /repo itself, run the property's
# check, undo the change straight afterwards. Appends one line to /verif/seeded/<name>/official.out.
export GOFLAGS=-mod=mod GOPROXY=off GOSUMDB=off GOTOOLCHAIN=local
name=$1; tier=${2:-quick}; id=${name:0:3}
d=/verif/seeded/$name
[ -z "$(git -C /repo status --porcelain)" ] || { echo "/repo not clean"; exit 2; }
git -C /repo apply $d/patch.diff || { echo "patch does not apply"; exit 2; }
cd /verif
out=$(VERIF_SEED=${VERIF_SEED:-1} ./check $id $tier 2>&1); rc=$?
git -C /repo checkout -- .
[ -z "$(git -C /repo status --porcelain)" ] || { echo "/repo not clean after undo"; exit 2; }
line="$name: git -C /repo apply patch.diff; ./check $id $tier -> exit $rc; $(echo "$out" | grep -E '^VIOLATION' | head -2 | tr '\n' ' ' | cut -c1-300); git -C /repo checkout -- ."
echo "$line" | tee -a $d/official.out
