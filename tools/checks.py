# Single source of truth for MANIFEST.json (tools/mkmanifest.py).
HOOK_COMMITS = []
NOT_APPLICABLE = {}
CHECKS = {
 "C36": dict(level="exploration",
   text="Differential monitor over generated inputs: 400k addresses/candidate strings per quick run; strict parser and jsonrpc validators compared with an independently written canonical-form regexp; byte/RLP/JSON round trips compared with the input. Held on what was generated, not a proof.",
   note="Trusts Go regexp/encoding-hex as reference; inputs are PRNG-generated (mutation classes listed in evidence), not exhaustive.",
   technique="runtime differential monitor (independent oracle) over generated + hostile inputs, checkptr build"),
}
