#!/usr/bin/env python3
"""Compare a `go test -json` run of /repo (hooks off) with the stable_pass list of /root/.vp/BASELINE.json."""
import json, sys
base = json.load(open('/root/.vp/BASELINE.json'))
stable = set(base['stable_pass'])
res = {}
for line in open(sys.argv[1]):
    try:
        e = json.loads(line)
    except Exception:
        continue
    if e.get('Action') in ('pass', 'fail', 'skip') and e.get('Test'):
        res[e['Package'] + '::' + e['Test']] = e['Action']
missing = [t for t in stable if t not in res]
failed = [t for t in stable if res.get(t) == 'fail']
skipped = [t for t in stable if res.get(t) == 'skip']
print("stable_pass=%d passed=%d failed=%d skipped=%d missing=%d; total results=%d" % (
    len(stable), sum(1 for t in stable if res.get(t) == 'pass'), len(failed), len(skipped), len(missing), len(res)))
for t in failed[:40]:
    print("FAILED", t)
for t in missing[:20]:
    print("MISSING", t)
otherfail = [t for t, a in res.items() if a == 'fail' and t not in stable]
print("failing tests outside stable_pass:", otherfail[:10])
sys.exit(1 if failed or missing else 0)
