#!/usr/bin/env python3
"""Print the DESIGN.md table rows for one seeded round from /verif/seeded/<id><suffix>/meta.json.

usage: tools/seedtable.py <suffix>      (suffix '' = round 1, 'b' = round 2, 'c' = round 3)
"""
import glob, json, os, re, sys

sfx = sys.argv[1] if len(sys.argv) > 1 else ''
rows = []
for d in sorted(glob.glob('/verif/seeded/C[0-9][0-9]' + sfx)):
    name = os.path.basename(d)
    if not re.fullmatch(r'C\d\d' + sfx, name):
        continue
    m = json.load(open(os.path.join(d, 'meta.json')))
    ck = m.get('check', {})
    keys = ', '.join(k.replace('key=', '') for k in ck.get('keys', [])[:2])
    rows.append('| %s | %s | %s | %s; detected=%s; keys: `%s` |' % (
        name, m.get('change', '?'), m.get('needs', '?'), m.get('result', '?'), ck.get('detected'), keys))
print('| seed | change | needs, to manifest | outcome |')
print('|---|---|---|---|')
print('\n'.join(rows))
