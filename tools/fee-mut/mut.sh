#!/bin/bash
# usage: mut.sh <name> <prop> <file> <python-old> <python-new> [nofix]
# resets the scratch worktree, copies hook files, applies the C11 fixes (unless nofix), applies one edit, runs the check.
set -u
name=$1; prop=$2; file=$3; old=$4; new=$5; nofix=${6:-}
WT=/tmp/wt-fee
git -C $WT checkout -- . >/dev/null 2>&1
for f in common/txlocator/verif_export.go service/verif_export.go; do cp /repo/$f $WT/$f; done
if [ -z "$nofix" ]; then
  (cd $WT && patch -p1 -s < /verif/fixes/C11-cache-maxts.diff && patch -p1 -s < /verif/fixes/C11-tracker-ancestors.diff) || { echo "PATCH FAILED"; exit 9; }
fi
if [ -n "$file" ]; then
python3 - "$WT/$file" "$old" "$new" <<'PY' || exit 9
import sys
p,old,new=sys.argv[1:4]
s=open(p).read()
old=old.encode().decode('unicode_escape'); new=new.encode().decode('unicode_escape')
if s.count(old)!=1:
    print("EDIT FAILED count=",s.count(old)); sys.exit(1)
open(p,'w').write(s.replace(old,new))
PY
fi
cd /verif
export GOFLAGS=-mod=mod GOPROXY=off GOSUMDB=off GOTOOLCHAIN=local
out=/tmp/verif-out-fee-$name
rm -rf $out
VERIF_OUT=$out VERIF_REPO=$WT VERIF_CMD=verif-fee ./check $prop quick > /tmp/fee-mut-$name.log 2>&1
rc=$?
echo "MUTANT $name prop=$prop rc=$rc $(grep -c VIOLATION /tmp/fee-mut-$name.log) violations; first: $(grep -m1 'key=' /tmp/fee-mut-$name.log)"
