#!/bin/bash
M=/verif/tools/fee-mut/mut.sh
R=/tmp/verif-out-fee-c11-unfixed/replays/C11
$M c11-unfixed C11 "" "" "" nofix
cp $R/*tracker.has.boundary-ts-eq-bts-plus-th.json /verif/fixes/C11-tracker-window.replay.json 2>/dev/null
cp $R/*evicted-ts-eq-maxTSInDB.json /verif/fixes/C11-cache-maxts.replay.json 2>/dev/null
f=$(ls $R/*ts-gt-intermediate-max*.json 2>/dev/null | head -1); [ -n "$f" ] && cp "$f" /verif/fixes/C11-tracker-ancestors.replay.json
ls $R | head -20
$M c11-revert-cache C11 common/txlocator/manager.go "l != 0 && l < ts {" "l != 0 && l <= ts {"
$M c11-revert-ancestors C11 common/txlocator/manager.go "	if t.locators != nil && ts < t.list.ts+t.list.th {" "	if ts >= t.list.ts+t.list.th {\n\t\treturn false, nil\n\t}\n\tif t.locators != nil {"
$M c11-skip-parents C11 common/txlocator/manager.go "	if t.parent != nil {\n\t\treturn t.parent.Has(id, ts)\n\t} else {" "	if false {\n\t\treturn t.parent.Has(id, ts)\n\t} else {"
$M c11-window-min C11 service/tschecker.go "	if ts <= min {" "	if ts < min {"
$M c11-force-add C11 service/transition.go "		if err := t.ensureRecordTXIDs(wc, false); err != nil {" "		if err := t.ensureRecordTXIDs(wc, true); err != nil {"
$M c11-evict-early C11 common/txlocator/manager.go "		if ptrMax > listMin {" "		if ptrMax > listMin+1 {"
$M c15-charge-limit C15 service/transaction/transactionhandler.go "	fee := new(big.Int).Mul(stepToPay, stepPrice)" "	fee := new(big.Int).Mul(th.stepLimit, stepPrice)"
$M c15-no-treasury C15 service/transition.go "	tr.SetBalance(new(big.Int).Add(tb, gatheredFee))" "	tr.SetBalance(tb)"
$M c15-self-mint C15 service/contract/transferhandler.go "	as1.SetBalance(new(big.Int).Sub(bal1, h.Value))\n\n\tas2 := cc.GetAccountState(h.To.ID())" "	as2 := cc.GetAccountState(h.To.ID())\n\tbal2x := as2.GetBalance()\n\tas1.SetBalance(new(big.Int).Sub(bal1, h.Value))\n\tdefer func() { if err == nil { as2.SetBalance(new(big.Int).Add(bal2x, h.Value)) } }()\n"
$M c15-no-min-steps C15 service/transaction/transactionhandler.go "	if stepUsed.Cmp(minSteps) == -1 {" "	if false && stepUsed.Cmp(minSteps) == -1 {"
$M c37-no-cumulative C37 service/transactionpool.go "		if err := tx.PreValidate(wc, true); err != nil {" "		if err := tx.PreValidate(wc, false); err != nil {"
$M c37-no-hasrecent C37 service/transactionpool.go "		} else if has {\n\t\t\te.err = errors.InvalidStateError.New(\"AlreadyProcessed\")" "		} else if false && has {\n\t\t\te.err = errors.InvalidStateError.New(\"AlreadyProcessed\")"
$M c37-window-max C37 service/tschecker.go "	} else if ts > max {" "	} else if ts > max+1 {"
$M c16-no-reset-oob C16 service/transaction/transactionhandler.go "			status = scoreresult.ErrOutOfBalance\n\t\t\tctx.Reset(wcs)\n" "			status = scoreresult.ErrOutOfBalance\n"
$M c16-logs-on-failure C16 service/transaction/transactionhandler.go "	if status == nil {\n\t\tcc.GetEventLogs(receipt)" "	if true {\n\t\tcc.GetEventLogs(receipt)"
$M c16-popframe-no-reset C16 service/contract/callcontext.go "		} else {\n\t\t\tcc.Reset(frame.snapshot)\n\t\t}" "		} else {\n\t\t}"
git -C /tmp/wt-fee checkout -- . ; echo ALL-DONE
