#!/bin/bash
M=/verif/tools/fee-mut/mut.sh
# M1: unfixed tree (both defects present)
$M c11-unfixed C11 "" "" "" nofix
mkdir -p /verif/fixes
cp /tmp/verif-out-fee-c11-unfixed/replays/C11/*unfinalized-parent.ts-eq-origin-max.json /verif/fixes/C11-tracker-window.replay.json 2>/dev/null
cp /tmp/verif-out-fee-c11-unfixed/replays/C11/*evicted-ts-eq-maxTSInDB.json /verif/fixes/C11-cache-maxts.replay.json 2>/dev/null
ls /tmp/verif-out-fee-c11-unfixed/replays/C11/ 
# M2: only the cache fix reverted
$M c11-revert-cache C11 common/txlocator/manager.go "l != 0 && l < ts {" "l != 0 && l <= ts {"
# M3: the design's partial fix (>) instead of the full one
$M c11-partial-gt C11 common/txlocator/manager.go "	if t.locators != nil && ts <= t.list.ts+t.list.th {" "	if ts > t.list.ts+t.list.th {\n\t\treturn false, nil\n\t}\n\tif t.locators != nil {"
# M4: tracker.Has skips the unfinalized parent chain
$M c11-skip-parents C11 common/txlocator/manager.go "	if t.parent != nil {\n\t\treturn t.parent.Has(id, ts)\n\t} else {" "	if false {\n\t\treturn t.parent.Has(id, ts)\n\t} else {"
# M5: window lower edge accepted
$M c11-window-min C11 service/tschecker.go "	if ts <= min {" "	if ts < min {"
# M6: validation records ids with force=true (no replay check at service level)
$M c11-force-add C11 service/transition.go "		if err := t.ensureRecordTXIDs(wc, false); err != nil {" "		if err := t.ensureRecordTXIDs(wc, true); err != nil {"
# M7: eviction one tick too early
$M c11-evict-early C11 common/txlocator/manager.go "		if ptrMax > listMin {" "		if ptrMax > listMin+1 {"
