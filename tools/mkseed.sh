#!/bin/bash
# usage: tools/mkseed.sh C03 [suffix]  -> creates worktree /tmp/seed-C03<suffix> and prints the agent prompt
id=$1; sfx=${2:-}
wt=/tmp/seed-$id$sfx
git -C /repo worktree add --detach $wt HEAD >/dev/null 2>&1
mkdir -p /tmp/seed-out/$id$sfx
echo "Read /tmp/seed-prompt.md and follow it exactly."
echo "Your scratch worktree: $wt (a git worktree of goloop at the commit under study)."
echo "<OUT> = /tmp/seed-out/$id$sfx"
echo "The property (JSON record):"
jq -c "select(.id==\"$id\")" /verif/properties.jsonl
