#!/bin/bash
# fourth round: tools/mkseed4.sh C03 -> worktree /tmp/seed-C03d, prompt names the sites used in rounds 1-3
id=$1; sfx=d
wt=/tmp/seed-$id$sfx
git -C /repo worktree remove --force $wt >/dev/null 2>&1
git -C /repo worktree add --detach $wt HEAD >/dev/null 2>&1
mkdir -p /tmp/seed-out/$id$sfx
used=""
for d in /verif/seeded/$id /verif/seeded/${id}b /verif/seeded/${id}c; do
  f=$(grep -h '^+++ b/' $d/patch.diff | sed 's/^+++ b\///' | tr '\n' ' ')
  fn=$(grep -h '^@@' $d/patch.diff | sed 's/.*@@ *//' | head -2 | tr '\n' ';')
  used="$used [$f: $fn]"
done
echo "Read /tmp/seed-prompt.md and follow it exactly."
echo "Your scratch worktree: $wt (a git worktree of goloop at the commit under study)."
echo "<OUT> = /tmp/seed-out/$id$sfx"
echo "Three colleagues already produced regressions for this property in:$used. Yours must be DIFFERENT in kind and place from all of them: another function (preferably another file or package) that the property depends on, and another way to manifest. Prefer the kinds that are hardest to notice: a change that needs a particular interleaving of goroutines, a crash or fault at a particular point, state carried over between two operations on a shared/pooled/cached object, a configuration value, or two cooperating sites."
echo "The property (JSON record):"
jq -c "select(.id==\"$id\")" /verif/properties.jsonl
