#!/usr/bin/env python3
"""Fill change / needs / result of the round-3 seeds' meta.json (runseed.sh keeps these fields)."""
import json

RUN = ("tools/runseed.sh %s c: fresh worktree of /repo HEAD; demo without the patch (must pass); git apply patch.diff; "
       "go build ./...; demo with the patch (must fail); VERIF_REPO=<worktree> ./check %s quick (must exit 1); worktree removed")

M = {
 "C01": ("blockpartset.go SetByPartSetID: the cached validated candidate of the previous part set is kept (commitAndEnterNewHeight then finalizes it)",
         "a validator that fully validated one block of (H,R) and then learns of a polka / commit for another block of the same height (equivocating proposer, or late precommits reaching a validator one round ahead)",
         "caught by the checks as they stood"),
 "C02": ("consensus.go enterPrevote: the block-import completion callback no longer compares the round it was started in",
         "a block import whose result arrives after the validator moved to a later round of the same height (slow import, lost round-0 proposals)",
         "FIRST MISSED (imports completed at once); delayed import callbacks (bmWrap.ImportBlock, 2.5 s, p=0.6) with forced second rounds added as a quick plan class, then caught"),
 "C09": ("worldvirtualstate.go GetSnapshot (world write lock): realizeBaseInLock, which is also the barrier on all earlier transactions, dropped",
         "concurrent executor; a world-write-locked transaction takes its snapshot while predecessors still run",
         "caught by the checks as they stood (race detector + level-2 comparison)"),
 "C10": ("worldvirtualstate.go GetFuture: marks the parent committed from its live state when nothing is scheduled after it",
         "concurrent executor; a later independent transaction commits while an earlier one still runs and then fails",
         "caught by the checks as they stood"),
 "C14": ("trie/cache NodeCache.Get releases the mutex before calling the (lock-free) BranchCache",
         "database with the cache manager attached and node cache enabled; concurrent reload of one state while another state of the same database is flushed",
         "FIRST MISSED (single goroutine, plain MapDB); concurrent reload phase over a cache-attached database added, then caught"),
 "C15": ("worldvirtualstate.go Commit: no waitCommit on write-locked but untouched accounts",
         "concurrent executor; lock chain T0 X->A (running), T1 Y->A failing before touching A, T2 A->Z",
         "FIRST MISSED (sequential executor only); concurrency-level-4 stacks with lock-chain blocks and injected retryable failures added, then caught"),
 "C16": ("state/account.go Reset: stale mutable store kept when rolling back to a snapshot without storage",
         "failed transaction writing storage of an account that had none, then a successful operation on the same account in the same block",
         "FIRST MISSED (the SCORE always had storage; nothing touched it after the failure); storage-less SCOREs and a later succeeding call in the block added, then caught"),
 "C17": ("trie/cache BranchCache.read: one shared read buffer for records read from the cache file",
         "node cache with file levels attached; flush, reload and use through that cache",
         "FIRST MISSED (no node cache in the histories); histories over a file-backed node cache added, then caught"),
 "C20": ("db/layer_db.go Flush: `flushed` set before the write loop",
         "transient write error of the target store in the middle of Flush(true), then the caller's retry",
         "FIRST MISSED (the target store never failed); one-shot Set fault with Flush retries added, then caught"),
 "C23": ("codec/bytes.go MarshalToBytes: pooled encoder returned to the pool before its buffer is copied",
         "two goroutines encoding through the shared codec at the same time (large payloads widen the window)",
         "FIRST MISSED (single goroutine); concurrent marshal/unmarshal phase against single-threaded reference encodings added, then caught"),
 "C34": ("icstate Unbonds.Clone: shallow copy of the entries",
         "a setBond that fails after UpdateUnbonds ran (rollback) on an account with pending unbonds",
         "caught by the checks as they stood"),
 "C35": ("icreward Delegating.ApplyVotes: existing entry updated in place (Clone is shallow, so the base snapshot's cached object changes)",
         "IISS4 reward path; a voter with a delegation from an earlier term changes the amount to the same P-Rep inside the term",
         "FIRST MISSED; re-delegations of a changed non-zero amount to the same P-Rep in later terms added, then caught"),
 "C03": ("consensus/wal.go walReader.ReadBytes: payload lengths above configWALFileLimit (2 MiB, the rotation threshold) are reported as corrupted",
         "one synced record with a payload of 2 MiB + 1 bytes or more, then a reopen and read (the recover loop truncates the log at that record)",
         "FIRST MISSED (largest payload was 8192 bytes); histories with one record of 2 MiB-1 .. 3 MiB added, then caught"),
 "C05": ("service/state/validatorlist.go clone(): the copy-on-write clone shares the address index map with the snapshot it was made from",
         "a validator state derived from the live snapshot V replaces/sets a validator (term change, penalty), then a commit vote list is verified against V",
         "FIRST MISSED (validator lists were only built from slices); verifications after mutating states derived from the verified snapshot added, then caught"),
 "C07": ("block/blockv2.go VerifyTimestamp: the height guard of the monotonicity rule lands on the parent (prev.Height() > 1)",
         "a height-2 candidate whose vote-median timestamp is not after block 1's timestamp",
         "caught by the checks as they stood"),
 "C11": ("txlocator manager.addListAndClearOldInLock: the `ptr.ts != 0` guard on maxTSInDB dropped (the root list of a restarted manager sets a tiny watermark)",
         "restart, one more committed block and its flush, then a replay of a transaction finalized before the restart",
         "caught by the checks as they stood (crash/restart phase of round 2)"),
 "C13": ("transaction_v3.go Verify: process-wide cache of verified ids skips the signature check for a known id",
         "the genuine transaction verified first, then a copy with the same fields and another signature",
         "caught by the checks as they stood"),
 "C18": ("ompt branch.prove: the proof element of a branch that is already written/flushed is consumed without comparison",
         "one verifier reused: Prove(valid), Flush, Prove(altered); or a database-backed verifier whose upper nodes were realized by Get",
         "FIRST MISSED (a fresh verifier per proof, never flushed); verifier life cycles (reuse across proofs with Flush, database-backed verifiers after Get) added, then caught"),
 "C21": ("containerdb/arraydb.go: the array size is cached in the handle instead of being re-read from the store",
         "two live handles on one array path used alternately, or a store rollback while a handle stays alive",
         "FIRST MISSED (one handle per container, no rollback under a live handle); multi-handle and rollback histories added, then caught"),
 "C31": ("network/secure.go increaseNonce: carry lost, the nonce repeats every 256 frames",
         "more than 256 frames in one direction and a swap/replay at a distance that is a multiple of 256",
         "caught by the checks as they stood (long-stream case of round 2; distance 256 also reported)"),
}

for pid, (change, needs, result) in M.items():
    p = "/verif/seeded/%sc/meta.json" % pid
    m = json.load(open(p))
    m["change"], m["needs"], m["result"] = change, needs, result
    m["what_was_run"] = [RUN % (pid, pid)]
    json.dump(m, open(p, "w"), indent=1)
print("ok")
