#!/usr/bin/env python3
"""Fill change / needs / result of the round-4 seeds' meta.json (runseed.sh keeps these fields)."""
import json

RUN = ("tools/runseed.sh %s d: fresh worktree of /repo HEAD; demo without the patch (must pass); git apply patch.diff; "
       "go build ./...; demo with the patch (must fail); VERIF_REPO=<worktree> ./check %s quick (must exit 1); worktree removed")

M = {
 "C04": ("consensus/partset.go countMask one bit short: PartSetIDAndAppData.ID() masks the part count to 15 bits",
         "a voted part-set id whose part count is 32768 or more (the +2/3 getter then names a part set nobody voted for)",
         "FIRST MISSED (part counts 1-5, and the expected id was derived through ID() itself); counts over the whole 16-bit field and a model-held expected id added, then caught"),
 "C07": ("block/blockv2.go VerifyTimestamp refactor: monotonicity test became ts < prev.Timestamp()",
         "a block above height 1 whose header timestamp and commit-vote median both equal the parent's timestamp",
         "caught by the checks as they stood"),
 "C09": ("worldvirtualstate.go getAccountStateInLock: a read-locked account with an earlier writer is served from the shared roAccounts cache / live state",
         "reader, writer, reader of one account in a block; or writer, reader, writer with the second writer scheduled before the reader's first access",
         "caught by the checks as they stood (race detector on the shared map + comparison)"),
 "C17": ("ompt/node.go flushBaseInLock: state set to written before bucket.Set",
         "a Bucket.Set error for one hashed node during Flush, then a successful retry of Flush, then reload by root hash",
         "caught by the checks as they stood (reported as a data race on the node state in the concurrent phase)"),
 "C19": ("db/layer_db.go layerBucket.Set: the private copy of the value is skipped when the key already has an overlay entry",
         "second Set (or Set after Delete) of one key in a layer, then the caller reuses the value buffer before read/commit",
         "caught by the checks as they stood"),
 "C22": ("txresult/receiptlist.go Get: fast-path key for small indexes with bound n <= 0x80",
         "a receipt list of 129 or more items and a lookup of index 128",
         "caught by the checks as they stood"),
 "C28": ("hexary/accumulator.go SetLen: the record is stored before the rewound state is assigned (old record written)",
         "Add to N, SetLen(k<N), reopen on the same buckets before the next Add",
         "caught by the checks as they stood"),
 "C30": ("network/packet.go WriteTo writes the whole ext slice, the footer advertises len & 1023",
         "an extension of 1024 bytes or more and a following packet on the same stream",
         "FIRST MISSED (extensions up to 1023 bytes); extensions longer than the length field added (wire extension = advertised prefix, stream must stay framed), then caught"),
 "C34": ("icstate/timer.go TimerState.GetSnapshot shares timerData with the live state (no clone)",
         "accounts in one unstaking/unbonding timer, a state snapshot, a cancel (timer Delete) in a transaction that is then reverted (State.Reset)",
         "FIRST MISSED (simulator transactions never fail after the timers were touched); rollback phase on icstate.State added (snapshot, cancel/unstake, Reset, timers must equal the unstake slots), then caught"),
 "C35": ("calculator/prep.go InitAccumulated skips elected P-Reps that are jailed/disabled at term start",
         "such a P-Rep enabled inside the term and voted for inside the term",
         "caught by the checks as they stood"),
}
for k, (chg, needs, res) in M.items():
    p = '/verif/seeded/%sd/meta.json' % k
    m = json.load(open(p))
    m.update(change=chg, needs=needs, result=res, what_was_run=[RUN % (k, k)])
    json.dump(m, open(p, 'w'), indent=1)
