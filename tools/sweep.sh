#!/bin/bash
# usage: tools/sweep.sh <tier> <seed> [ids...]   -> runs checks sequentially, prints one line per check
tier=${1:-quick}; seed=${2:-1}; shift 2
ids=${@:-$(jq -r '.checks[].property_id' MANIFEST.json)}
for id in $ids; do
  t0=$(date +%s)
  out=$(VERIF_SEED=$seed ./check $id $tier 2>&1); rc=$?
  t1=$(date +%s)
  echo "$id seed=$seed rc=$rc $((t1-t0))s $(echo "$out" | grep -E 'VIOLATION|INCONCLUSIVE|KNOWN-FINDING|BUILD-FAILED' | head -3 | tr '\n' ' ' | cut -c1-200)"
done
